"""
Dense linear algebra over a model semiring (vf.semi.Model).  Deliberately *not* the
Lehmann/Kleene elimination used by the library: fields use Gauss-Jordan inversion of (I - A),
everything else sums powers of A until the partial sums are stable.
"""

from fractions import Fraction


class HarnessError(Exception):
    "the harness (generator / reference) is at fault, never the library: exit 2"


def identity(M, n):
    return [[M.one if i == j else M.zero for j in range(n)] for i in range(n)]


def zeros(M, n, m=None):
    m = n if m is None else m
    return [[M.zero for _ in range(m)] for _ in range(n)]


def mat_mul(M, A, B):
    n, k, m = len(A), len(B), (len(B[0]) if B else 0)
    out = [[M.zero for _ in range(m)] for _ in range(n)]
    for i in range(n):
        Ai = A[i]
        for t in range(k):
            a = Ai[t]
            if M.is_zero(a):
                continue
            Bt = B[t]
            oi = out[i]
            for j in range(m):
                b = Bt[j]
                if M.is_zero(b):
                    continue
                oi[j] = M.add(oi[j], M.mul(a, b))
    return out


def mat_add(M, A, B):
    return [[M.add(a, b) for a, b in zip(ra, rb)] for ra, rb in zip(A, B)]


def vec_mat(M, v, A):
    n = len(A)
    m = len(A[0]) if A else 0
    out = [M.zero] * m
    for i in range(n):
        if M.is_zero(v[i]):
            continue
        for j in range(m):
            if M.is_zero(A[i][j]):
                continue
            out[j] = M.add(out[j], M.mul(v[i], A[i][j]))
    return out


def mat_vec(M, A, v):
    return [M.sum(M.mul(a, x) for a, x in zip(row, v) if not M.is_zero(a)) for row in A]


def dot(M, u, v):
    return M.sum(M.mul(a, b) for a, b in zip(u, v))


def _gauss_inverse(A, exact):
    "inverse of a square matrix of Fractions (exact) or floats (partial pivoting)"
    n = len(A)
    one = Fraction(1) if exact else 1.0
    zero = Fraction(0) if exact else 0.0
    aug = [list(A[i]) + [one if i == j else zero for j in range(n)] for i in range(n)]
    for c in range(n):
        if exact:
            p = next((r for r in range(c, n) if aug[r][c] != 0), None)
        else:
            p = max(range(c, n), key=lambda r: abs(aug[r][c]))
            if abs(aug[p][c]) < 1e-300:
                p = None
        if p is None:
            raise HarnessError("singular (I - A): the generator must keep systems convergent")
        aug[c], aug[p] = aug[p], aug[c]
        piv = aug[c][c]
        aug[c] = [x / piv for x in aug[c]]
        for r in range(n):
            if r != c and aug[r][c] != 0:
                f = aug[r][c]
                rowc = aug[c]
                aug[r] = [x - f * y for x, y in zip(aug[r], rowc)]
    return [row[n:] for row in aug]


def mat_star(M, A, cap=20000):
    "A* = sum_k A^k"
    n = len(A)
    if n == 0:
        return []
    if M.field:
        I_A = [[(M.one if i == j else M.zero) - A[i][j] for j in range(n)] for i in range(n)]
        return _gauss_inverse(I_A, M.exact)
    S = identity(M, n)
    P = identity(M, n)
    for _ in range(cap):
        P = mat_mul(M, P, A)
        S2 = mat_add(M, S, P)
        if M.exact:
            stable = S2 == S
        else:
            stable = all(
                _tiny(M, P[i][j]) for i in range(n) for j in range(n)
            )
        S = S2
        if stable:
            return S
        if M.exact and not M.idempotent and all(M.is_zero(x) for r in P for x in r):
            return S
    raise HarnessError(f"A* did not stabilise in model {M.name} (generator constraint violated?)")


def _tiny(M, x):
    if isinstance(x, tuple):
        return all(abs(c) < 1e-18 for c in x)
    return abs(x) < 1e-18


def solve_right(M, A, b):
    "least solution of x = A x + b"
    return mat_vec(M, mat_star(M, A), b)


def solve_left(M, A, b):
    "least solution of x = x A + b"
    return vec_mat(M, b, mat_star(M, A))
