"""
Hypothesis strategies.  Every strategy produces a *plain JSON value* (dict / list / str / int) so
that a case can be stored, replayed and minimised without Hypothesis.  Weights are strings.
"""

from fractions import Fraction

from hypothesis import strategies as st

from vf import cfgref

TERMS = ["a", "b", "c"]
NTS = ["S", "A", "B", "C"]
UNDEF = "U"  # a nonterminal without rules (low rate)

BODY_LEN = [0] * 15 + [1] * 35 + [2] * 35 + [3] * 12 + [4] * 3


def F(x):
    return str(Fraction(x))


# ---------------------------------------------------------------------------------------------
# grammars


@st.composite
def raw_grammar(draw, max_nt=4, max_rules=8, max_terms=3, min_terms=1, undef_rate=0.08, boost=None):
    nV = draw(st.integers(min_terms, max_terms))
    V = TERMS[:nV]
    nN = draw(st.integers(1, max_nt))
    N = NTS[:nN]
    nR = draw(st.integers(1, max_rules))
    use_undef = draw(st.integers(0, 99)) < undef_rate * 100
    syms = N + V + ([UNDEF] if use_undef else [])
    rules = []
    for _ in range(nR):
        h = draw(st.sampled_from(N))
        k = draw(st.sampled_from(BODY_LEN))
        body = [draw(st.sampled_from(syms)) for _ in range(k)]
        rules.append([h, body])
    if boost is None:
        boost = draw(st.integers(0, 9)) < 7
    if boost:
        # liveness boost: every nonterminal gets a terminating rule
        for X in N:
            if not any(h == X and all(y in V for y in b) for h, b in rules):
                if draw(st.integers(0, 4)) == 0:
                    rules.append([X, []])
                else:
                    rules.append([X, [draw(st.sampled_from(V))]])
        order = draw(st.permutations(range(len(rules))))
        rules = [rules[i] for i in order]
    return {"S": "S", "V": V, "rules": rules, "boost": bool(boost)}


def repair(g, mode):
    """Deterministic repair to meet a regime's shape constraint (delete the rule closing a cycle).
    mode 'nullcycle': no cycle among nullable nonterminals through all-nullable bodies (QQ);
    mode 'finite_derivations': no derivation X =>+ X at all (FREE);
    mode 'nonrecursive': no recursion at all (finite language)."""
    rules = [(None, h, tuple(b)) for h, b in g["rules"]]
    V = g["V"]
    removed = 0
    while True:
        if mode == "nullcycle":
            N0 = cfgref.nullable_set(rules, V)
            E = [
                (h, y, r)
                for r, (_, h, b) in enumerate(rules)
                if b and all((y not in V and y in N0) for y in b)
                for y in b
            ]
        elif mode == "finite_derivations":
            E = cfgref.unit_graph(rules, V, through_null=True)
        elif mode == "nonrecursive":
            E = [(h, y, r) for r, (_, h, b) in enumerate(rules) for y in b if y not in V]
        else:
            raise ValueError(mode)
        r = cfgref.find_cycle_rule(E)
        if r is None:
            break
        del rules[r]
        removed += 1
    out = dict(g)
    out["rules"] = [[h, list(b)] for _, h, b in rules]
    out["repaired"] = removed
    return out


def nt_count(body, V):
    return sum(1 for y in body if y not in V)


@st.composite
def weights(draw, g, regime):
    "attach weights (strings) to a raw grammar according to the regime"
    rules = g["rules"]
    V = g["V"]
    ws = []
    if regime == "BOOL":
        ws = ["1"] * len(rules)
    elif regime == "MT":
        ws = [draw(st.sampled_from(["1", "1/2", "1/3", "3/4", "2/5"])) for _ in rules]
    elif regime == "MP":
        ws = [str(draw(st.sampled_from([0, -1, -2, -3]))) for _ in rules]
    elif regime == "FREE":
        ws = [f"x{i + 1}" for i in range(len(rules))]
    else:
        style = draw(st.integers(0, 9))
        if style < 8:
            # convergence by construction (DESIGN 4.2)
            c = draw(st.sampled_from([Fraction(2), Fraction(4, 3)]))
            count = {}
            for h, _ in rules:
                count[h] = count.get(h, 0) + 1
            for h, b in rules:
                u = draw(st.sampled_from([Fraction(1), Fraction(3, 4), Fraction(1, 2)]))
                ws.append(F(u / (c * count[h] * max(1, nt_count(b, V)))))
        else:
            # the suite's style: small decimal weights, still dominated (sum_r w_r*max(1,n_r) <= 3/4)
            count = {}
            for h, b in rules:
                count[h] = count.get(h, 0) + max(1, nt_count(b, V))
            for h, b in rules:
                u = draw(st.sampled_from([Fraction(1, 5), Fraction(3, 10), Fraction(1, 2), Fraction(3, 4)]))
                ws.append(F(u * Fraction(3, 4) / count[h]))
    return [[w, h, b] for w, (h, b) in zip(ws, rules)]


SHAPE = {
    "BOOL": None,
    "MT": None,
    "MP": None,
    "FREE": "finite_derivations",
    "QQ": "nullcycle",
    "FLOAT": None,
    "REAL": None,
    "LOG": None,
}


@st.composite
def grammar(draw, regimes=("BOOL", "MT", "FREE", "QQ", "FLOAT"), shape=None, **kw):
    regime = draw(st.sampled_from(list(regimes)))
    g = draw(raw_grammar(**kw))
    mode = shape or SHAPE.get(regime)
    if mode:
        g = repair(g, mode)
    g["rules"] = draw(weights(g, regime))
    g["regime"] = regime
    return g


def classify(g):
    "structural class labels of a grammar case (rules = [w, head, body])"
    rules = [(w, h, tuple(b)) for w, h, b in g["rules"]]
    V = set(g["V"])
    S = g["S"]
    out = set()
    N0 = cfgref.nullable_set(rules, V)
    if S in N0:
        out.add("nullable_start")
    if N0:
        out.add("has_nullable")
    if cfgref.find_cycle_rule(
        [(h, y, r) for r, (_, h, b) in enumerate(rules) if b and all(y not in V and y in N0 for y in b) for y in b]
    ) is not None:
        out.add("nullable_cycle")
    U = [(h, b[0], r) for r, (_, h, b) in enumerate(rules) if len(b) == 1 and b[0] not in V]
    if U:
        out.add("unary_rule")
    if cfgref.find_cycle_rule(U) is not None:
        out.add("unary_cycle")
    if cfgref.find_cycle_rule(cfgref.unit_graph(rules, V)) is not None:
        out.add("cyclic_derivation")
    if any(b and b[0] == h for _, h, b in rules if len(b) > 1):
        out.add("left_recursion")
    if any(b and b[-1] == h for _, h, b in rules if len(b) > 1):
        out.add("right_recursion")
    if any(h in b[1:-1] for _, h, b in rules if len(b) > 2):
        out.add("centre_recursion")
    seen = set()
    for _, h, b in rules:
        if (h, b) in seen:
            out.add("duplicate_rule")
        seen.add((h, b))
    if any(S in b for _, _, b in rules):
        out.add("start_on_rhs")
    if any(len(b) > 2 for _, _, b in rules):
        out.add("arity>2")
    if any(len(set(y for y in b if y not in V)) < len([y for y in b if y not in V]) for _, _, b in rules):
        out.add("repeated_symbol")
    C = cfgref.generating_set(rules, V)
    T = cfgref.reachable_set(rules, S)
    heads = {h for _, h, _ in rules}
    if S not in C:
        out.add("empty_language")
    if any(h not in C or h not in T for h in heads) or any(
        (y not in V and (y not in C)) for _, _, b in rules for y in b
    ):
        out.add("useless_symbols")
    if any(len(b) == 0 for _, _, b in rules):
        out.add("nullary_rule")
    return out


def all_strings(V, n):
    out = [()]
    frontier = [()]
    for _ in range(n):
        frontier = [x + (a,) for x in frontier for a in V]
        out += frontier
    return out
