"""
Hypothesis strategies.  Every strategy produces a *plain JSON value* (dict / list / str / int) so
that a case can be stored, replayed and minimised without Hypothesis.  Weights are strings.
"""

from fractions import Fraction

from hypothesis import strategies as st

from vf import cfgref

TERMS = ["a", "b", "c", "d"]
NTS = ["S", "A", "B", "C", "D", "E"]
UNDEF = "U"  # a nonterminal without rules (low rate)

BODY_LEN = [0] * 15 + [1] * 35 + [2] * 34 + [3] * 11 + [4] * 3 + [5, 6]


def F(x):
    return str(Fraction(x))


# Terminal symbols need not be strings: byte-level grammars use ints 0..255 (0 = NUL is falsy), the
# suite's renumber test uses int terminals, and any hashable works.  A case may therefore replace
# the canonical terminals a, b, c, d by one of these alphabets (JSON lists become tuples).
SYMBOLS = {
    "int0": [0, 1, 2, 3],
    "intsparse": [5, 7, 11, 200],
    "mixed": [0, [], "c", ["t", 1]],
    "nul": ["\x00", "b", "\u00e9", "d"],
    "bool": [True, False, "c", 2],
    # distinct symbols with equal hashes (CPython: hash(-1) == hash(-2) == -2, hash(2**61-1) == hash(0) == 0)
    "hashcollide": [-1, -2, 2**61 - 1, 0],
}
ALPHABETS = [["a", "b"]] * 6 + [[0, 1], [5, 7], [0, []], ["a", ["t", 1]], [-1, -2], [1, 11], ["a", "aa"], ["1", 1]]  # the last three: different sequences print alike when joined


def resymbol(g, mode):
    "replace the terminals of a grammar case (V and rule bodies) by the alphabet `mode`"
    if not mode or mode == "str":
        return g
    ren = {t: s for t, s in zip(TERMS, SYMBOLS[mode])}
    out = dict(g)
    out["V"] = [ren[v] for v in g["V"]]
    out["rules"] = [r[:-1] + [[ren.get(y, y) if isinstance(y, str) else y for y in r[-1]]] for r in g["rules"]]
    out["symbols"] = mode
    return out


def size(tier):
    "grammar size bounds per tier: the thorough tier also explores 6 nonterminals / 12 rules"
    return {"max_nt": 6, "max_rules": 12} if tier == "thorough" else {}


@st.composite
def derived_strings(draw, g, k=3, maxlen=6, fuel=40):
    """up to k terminal strings obtained by random leftmost derivations of the (weighted, JSON) grammar
    g -- longer than the exhaustive bound, so that wide spans and deep charts are exercised too"""
    V = [cfgref.sym(v) for v in g["V"]]
    Vs = set(V)
    by = {}
    for r in g["rules"]:
        by.setdefault(cfgref.sym(r[-2]), []).append([cfgref.sym(y) for y in r[-1]])
    out = []
    for _ in range(k):
        form, res, left = [cfgref.sym(g["S"])], [], fuel
        while form and left > 0 and len(res) <= maxlen:
            y = form.pop(0)
            if y in Vs:
                res.append(y)
                continue
            if y not in by:
                break
            left -= 1
            # prefer short bodies when the fuel runs low so that derivations terminate
            opts = by[y] if left > fuel // 2 else sorted(by[y], key=len)[: max(1, len(by[y]) // 2)]
            form = list(opts[draw(st.integers(0, len(opts) - 1))]) + form
        else:
            if not form and len(res) <= maxlen:
                out.append(list(res))
    return out


# ---------------------------------------------------------------------------------------------
# grammars


@st.composite
def raw_grammar(draw, max_nt=4, max_rules=8, max_terms=3, min_terms=1, undef_rate=0.08, boost=None, corner_rate=0.2, cycle_rate=0.15, cnf_rate=0.1, long_rate=0.07):
    nV = draw(st.integers(min_terms, max_terms))
    V = TERMS[:nV]
    nN = draw(st.integers(1, max_nt))
    N = NTS[:nN]
    fam = draw(st.integers(0, 99))
    if max_nt >= 3 and fam < corner_rate * 100:
        return draw(corner_grammar(V, NTS[: max(3, nN)], max_rules))
    if max_nt >= 3 and fam < (corner_rate + cycle_rate) * 100:
        return draw(cycle_grammar(V, NTS[: max(3, nN)]))
    if fam < (corner_rate + cycle_rate + cnf_rate) * 100:
        return draw(cnf_shaped_grammar(V, N, max_rules))
    if fam < (corner_rate + cycle_rate + cnf_rate + long_rate) * 100:
        return draw(long_body_grammar(V, N))
    nR = draw(st.integers(1, max_rules))
    use_undef = draw(st.integers(0, 99)) < undef_rate * 100
    syms = N + V + ([UNDEF] if use_undef else [])
    rules = []
    for _ in range(nR):
        h = draw(st.sampled_from(N))
        k = draw(st.sampled_from(BODY_LEN))
        body = [draw(st.sampled_from(syms)) for _ in range(k)]
        rules.append([h, body])
    if boost is None:
        boost = draw(st.integers(0, 9)) < 7
    if boost:
        # liveness boost: every nonterminal gets a terminating rule
        for X in N:
            if not any(h == X and all(y in V for y in b) for h, b in rules):
                if draw(st.integers(0, 4)) == 0:
                    rules.append([X, []])
                else:
                    rules.append([X, [draw(st.sampled_from(V))]])
        order = draw(st.permutations(range(len(rules))))
        rules = [rules[i] for i in order]
    return {"S": "S", "V": V, "rules": rules, "boost": bool(boost)}


@st.composite
def corner_grammar(draw, V, N, max_rules):
    """Second grammar family ("shared left corners"): the start symbol's rules begin with a terminal
    and continue with a nonterminal; the other nonterminals' rules begin with a later nonterminal
    (so several nonterminals share their left corners and are predicted in the same or in sibling
    columns) or with a terminal.  Layered, hence a finite language unless a recursive rule is added."""
    S, rest = N[0], N[1:]
    rules = []
    for i, X in enumerate(rest):
        later = rest[i + 1 :]
        for _ in range(draw(st.integers(1, 2))):
            if later and draw(st.integers(0, 9)) < 7:
                body = [draw(st.sampled_from(later))]
            else:
                body = [draw(st.sampled_from(V))]
            if draw(st.integers(0, 9)) < 6:
                body.append(draw(st.sampled_from(V)))
            rules.append([X, body])
    if not any(h == rest[-1] and all(y in V for y in b) for h, b in rules):
        rules.append([rest[-1], [draw(st.sampled_from(V))]])
    nS = draw(st.integers(2, max(2, min(5, max_rules - len(rules)))))
    for _ in range(nS):
        body = [draw(st.sampled_from(V))] if draw(st.integers(0, 9)) < 8 else []
        body.append(draw(st.sampled_from(rest)))
        if draw(st.integers(0, 9)) < 2:
            body.append(draw(st.sampled_from(V + [S])))
        rules.append([S, body])
    order = draw(st.permutations(range(len(rules))))
    return {"S": S, "V": V, "rules": [rules[i] for i in order], "boost": True, "family": "corner"}


@st.composite
def cycle_grammar(draw, V, N):
    """Third grammar family ("left-corner cycles"): k >= 2 nonterminals form a cycle X0 -> X1 ... -> X0 in
    the left-corner graph (each step a unary rule or a left-recursive rule X -> Y t), with exits,
    further left corners outside the cycle, and rules that enter the cycle in the middle after a token.
    Indirect left recursion through unary rules is where memoised closures and agenda orders go wrong."""
    S = N[0]
    order = draw(st.permutations(N))
    k = draw(st.integers(2, len(N)))
    cyc, others = list(order[:k]), list(order[k:])
    rules = []
    for i, X in enumerate(cyc):
        body = [cyc[(i + 1) % k]]
        r = draw(st.integers(0, 9))
        if r < 4:
            body.append(draw(st.sampled_from(V)))
        elif r < 6:
            body.append(draw(st.sampled_from(cyc)))  # X -> Y Y', e.g. S -> B B with B -> S
        rules.append([X, body])
    for X in cyc:
        r = draw(st.integers(0, 9))
        if r < 5:
            rules.append([X, [draw(st.sampled_from(V))]])
        elif r < 7 and others:
            rules.append([X, [draw(st.sampled_from(others))] + ([draw(st.sampled_from(V))] if draw(st.booleans()) else [])])
        elif r < 8:
            rules.append([X, [draw(st.sampled_from(V)), draw(st.sampled_from(cyc))]])
    if not any(h in cyc and all(y in V for y in b) for h, b in rules):
        rules.append([draw(st.sampled_from(cyc)), [draw(st.sampled_from(V))]])
    for D in others:
        rules.append([D, [draw(st.sampled_from(V))]])
    if S not in cyc or draw(st.booleans()):
        rules.append([S, ([draw(st.sampled_from(V))] if draw(st.integers(0, 9)) < 7 else []) + [draw(st.sampled_from(cyc))]])
    idx = draw(st.permutations(range(len(rules))))
    return {"S": S, "V": V, "rules": [rules[i] for i in idx], "boost": True, "family": "lc_cycle"}


@st.composite
def cnf_shaped_grammar(draw, V, N, max_rules):
    """Fourth family: every rule already has a Chomsky-normal-form shape (A -> a, A -> B C, X -> eps),
    with the start symbol allowed on right-hand sides and nullable -- 'already normal' inputs are
    where shortcuts in the normal-form pipeline hide."""
    rules = []
    for _ in range(draw(st.integers(2, max_rules))):
        h = draw(st.sampled_from(N))
        r = draw(st.integers(0, 9))
        if r < 4:
            rules.append([h, [draw(st.sampled_from(V))]])
        elif r < 9:
            rules.append([h, [draw(st.sampled_from(N)), draw(st.sampled_from(N))]])
        else:
            rules.append([h, []])
    if draw(st.integers(0, 9)) < 4:
        rules.append([N[0], []])
    for X in N:
        if not any(h == X and all(y in V for y in b) for h, b in rules):
            rules.append([X, [draw(st.sampled_from(V))]])
    return {"S": N[0], "V": V, "rules": rules, "boost": True, "family": "cnf_shaped"}


@st.composite
def long_body_grammar(draw, V, N):
    """Fifth family: two or three rules with bodies of 5-7 symbols that share a common tail (their heads
    may differ), plus short rules; wide rules are where binarisation, folding and memoised tails live."""
    inner = V + (N[1:] if len(N) > 1 else [])
    tail = [draw(st.sampled_from(inner)) for _ in range(draw(st.integers(2, 4)))]
    rules = []
    for _ in range(draw(st.integers(2, 3))):
        pre = [draw(st.sampled_from(V + N)) if draw(st.integers(0, 3)) else draw(st.sampled_from(V)) for _ in range(draw(st.integers(2, 3)))]
        rules.append([draw(st.sampled_from(N)), pre + tail])
    for _ in range(draw(st.integers(0, 2))):
        rules.append([draw(st.sampled_from(N)), [draw(st.sampled_from(V + N)) for _ in range(draw(st.integers(0, 2)))]])
    for X in N:
        if not any(h == X and all(y in V for y in b) for h, b in rules):
            rules.append([X, [draw(st.sampled_from(V))]] if draw(st.integers(0, 3)) else [X, []])
    if not any(h == N[0] and len(b) >= 5 for h, b in rules) and draw(st.booleans()):
        rules.append([N[0], [rules[0][0]]])
    idx = draw(st.permutations(range(len(rules))))
    return {"S": N[0], "V": V, "rules": [rules[i] for i in idx], "boost": True, "family": "long_bodies"}


def repair(g, mode):
    """Deterministic repair to meet a regime's shape constraint (delete the rule closing a cycle).
    mode 'nullcycle': no cycle among nullable nonterminals through all-nullable bodies (QQ);
    mode 'finite_derivations': no derivation X =>+ X at all (FREE);
    mode 'nonrecursive': no recursion at all (finite language)."""
    rules = [(None, h, tuple(b)) for h, b in g["rules"]]
    V = g["V"]
    removed = 0
    while True:
        if mode == "nullcycle":
            N0 = cfgref.nullable_set(rules, V)
            E = [
                (h, y, r)
                for r, (_, h, b) in enumerate(rules)
                if b and all((y not in V and y in N0) for y in b)
                for y in b
            ]
        elif mode == "finite_derivations":
            E = cfgref.unit_graph(rules, V, through_null=True)
        elif mode == "nonrecursive":
            E = [(h, y, r) for r, (_, h, b) in enumerate(rules) for y in b if y not in V]
        else:
            raise ValueError(mode)
        r = cfgref.find_cycle_rule(E)
        if r is None:
            break
        del rules[r]
        removed += 1
    out = dict(g)
    out["rules"] = [[h, list(b)] for _, h, b in rules]
    out["repaired"] = removed
    return out


def nt_count(body, V):
    return sum(1 for y in body if y not in V)


@st.composite
def weights(draw, g, regime, style=None):
    "attach weights (strings) to a raw grammar according to the regime"
    rules = g["rules"]
    V = g["V"]
    ws = []
    if regime == "BOOL":
        ws = ["1"] * len(rules)
    elif regime == "MT":
        ws = [draw(st.sampled_from(["1", "1/2", "1/3", "3/4", "2/5"])) for _ in rules]
    elif regime == "MP":
        ws = [str(draw(st.sampled_from([0, -1, -2, -3]))) for _ in rules]
    elif regime == "FREE":
        ws = [f"x{i + 1}" for i in range(len(rules))]
    else:
        style = draw(st.integers(0, 9)) if style is None else style
        nonrec = cfgref.find_cycle_rule([(h, y, r) for r, (h, b) in enumerate(rules) for y in b if y not in V]) is None
        if nonrec and regime in ("QQ", "REAL", "FLOAT") and style < 4 and style is not None:
            # a non-recursive grammar has finitely many derivations: any weights do, also > 1
            ws = [draw(st.sampled_from(FREE_W + ["5/2", "7", "1/8"])) for _ in rules]
        elif style in (6, 7):
            # PCFG style: the weights of the rules of one head sum to exactly one wherever the head
            # has a terminal-only rule, and sum_r w_r * n_r <= 3/4 (subcritical, so the fixed point
            # iteration still contracts); heads without a terminal-only rule get dominated weights.
            # Total weight is < 1 exactly when mass leaks into an unproductive nonterminal.
            by = {}
            for i, (h, b) in enumerate(rules):
                by.setdefault(h, []).append(i)
            ws = [None] * len(rules)
            for h, idx in by.items():
                u = {i: Fraction(draw(st.sampled_from([1, 2, 3]))) for i in idx}
                rec = [i for i in idx if nt_count(rules[i][1], V) > 0]
                ter = [i for i in idx if i not in rec]
                if not ter:
                    for i in idx:
                        ws[i] = F(Fraction(1, 2) / (len(idx) * max(1, nt_count(rules[i][1], V))))
                    continue
                s = draw(st.sampled_from([Fraction(1), Fraction(1, 2)]))
                den = sum(u[i] * nt_count(rules[i][1], V) for i in rec)
                mass = Fraction(0)
                for i in rec:
                    w = Fraction(3, 4) * s * u[i] / den
                    ws[i] = F(w)
                    mass += w
                ut = sum(u[i] for i in ter)
                for i in ter:
                    ws[i] = F((1 - mass) * u[i] / ut)
        elif style < 8:
            # convergence by construction (DESIGN 4.2)
            c = draw(st.sampled_from([Fraction(2), Fraction(4, 3)]))
            count = {}
            for h, _ in rules:
                count[h] = count.get(h, 0) + 1
            for h, b in rules:
                u = draw(st.sampled_from([Fraction(1), Fraction(3, 4), Fraction(1, 2)]))
                ws.append(F(u / (c * count[h] * max(1, nt_count(b, V)))))
        else:
            # the suite's style: small decimal weights, still dominated (sum_r w_r*max(1,n_r) <= 3/4)
            count = {}
            for h, b in rules:
                count[h] = count.get(h, 0) + max(1, nt_count(b, V))
            for h, b in rules:
                u = draw(st.sampled_from([Fraction(1, 5), Fraction(3, 10), Fraction(1, 2), Fraction(3, 4)]))
                ws.append(F(u * Fraction(3, 4) / count[h]))
    return [[w, h, b] for w, (h, b) in zip(ws, rules)]


SHAPE = {
    "BOOL": None,
    "MT": None,
    "MP": None,
    "FREE": "finite_derivations",
    "QQ": "nullcycle",
    "FLOAT": None,
    "REAL": None,
    "LOG": None,
}


@st.composite
def grammar(draw, regimes=("BOOL", "MT", "FREE", "QQ", "FLOAT"), shape=None, symbols=False, signed=False, tiny=False, weight_style=None, cancel=False, **kw):
    regime = draw(st.sampled_from(list(regimes)))
    g = draw(raw_grammar(**kw))
    mode = shape or SHAPE.get(regime)
    if mode:
        g = repair(g, mode)
    g["rules"] = draw(weights(g, regime, weight_style))
    g["regime"] = regime
    if signed and regime == "QQ" and draw(st.integers(0, 1)) == 0:
        # a field is a commutative semiring too: signed weights (absolute values stay dominated, so
        # every series still converges absolutely); sums can now cancel to exactly zero
        g["rules"] = [[(F(-Fraction(w)) if draw(st.integers(0, 2)) == 0 else w), h, b] for w, h, b in g["rules"]]
        g["signed"] = True
        if cancel and draw(st.integers(0, 2)) == 0:
            # duplicate rules of opposite weight: the pair sums to exactly zero but both are still
            # rules (k == 0: every empty rule gets its opposite, so that nothing is nullable *by
            # weight* although empty rules exist; k == 1: one rule drawn at random)
            k = draw(st.integers(0, 1))
            rs = g["rules"]
            if k == 0:
                extra = [[F(-Fraction(w)), h, list(b)] for w, h, b in rs if len(b) == 0]
            else:
                w, h, b = rs[draw(st.integers(0, len(rs) - 1))] if rs else (None, None, None)
                extra = [[F(-Fraction(w)), h, list(b)]] if rs else []
            if extra:
                g["rules"] = rs + extra
                g["cancelling"] = True
    if tiny and regime == "FLOAT" and draw(st.integers(0, 5)) == 0:
        # positive but tiny weights (rare events): still part of the support
        g["rules"] = [[(draw(st.sampled_from(["1e-13", "3e-14", "1e-30", "1e-300"])) if draw(st.integers(0, 3)) == 0 else w), h, b] for w, h, b in g["rules"]]
        g["tiny"] = True
    if symbols:
        g = resymbol(g, draw(st.sampled_from(["str"] * 7 + ["int0", "intsparse", "mixed", "bool", "hashcollide"])))
    return g


def classify(g):
    "structural class labels of a grammar case (rules = [w, head, body])"
    rules = [(w, h, tuple(cfgref.sym(y) for y in b)) for w, h, b in g["rules"]]
    V = {cfgref.sym(v) for v in g["V"]}
    S = g["S"]
    out = set()
    if g.get("symbols"):
        out.add("terminals:" + g["symbols"])
    if g.get("signed"):
        out.add("signed_weights")
    if g.get("cancelling"):
        out.add("cancelling_duplicates")
    if g.get("tiny"):
        out.add("tiny_positive_weights")
    N0 = cfgref.nullable_set(rules, V)
    if S in N0:
        out.add("nullable_start")
    if N0:
        out.add("has_nullable")
    if cfgref.find_cycle_rule(
        [(h, y, r) for r, (_, h, b) in enumerate(rules) if b and all(y not in V and y in N0 for y in b) for y in b]
    ) is not None:
        out.add("nullable_cycle")
    U = [(h, b[0], r) for r, (_, h, b) in enumerate(rules) if len(b) == 1 and b[0] not in V]
    if U:
        out.add("unary_rule")
    if cfgref.find_cycle_rule(U) is not None:
        out.add("unary_cycle")
    if cfgref.find_cycle_rule(cfgref.unit_graph(rules, V)) is not None:
        out.add("cyclic_derivation")
    if any(b and b[0] == h for _, h, b in rules if len(b) > 1):
        out.add("left_recursion")
    if any(b and b[-1] == h for _, h, b in rules if len(b) > 1):
        out.add("right_recursion")
    if any(h in b[1:-1] for _, h, b in rules if len(b) > 2):
        out.add("centre_recursion")
    seen = set()
    for _, h, b in rules:
        if (h, b) in seen:
            out.add("duplicate_rule")
        seen.add((h, b))
    if any(S in b for _, _, b in rules):
        out.add("start_on_rhs")
    if any(len(b) > 2 for _, _, b in rules):
        out.add("arity>2")
    if any(len(set(y for y in b if y not in V)) < len([y for y in b if y not in V]) for _, _, b in rules):
        out.add("repeated_symbol")
    C = cfgref.generating_set(rules, V)
    T = cfgref.reachable_set(rules, S)
    heads = {h for _, h, _ in rules}
    if S not in C:
        out.add("empty_language")
    if any(h not in C or h not in T for h in heads) or any(
        (y not in V and (y not in C)) for _, _, b in rules for y in b
    ):
        out.add("useless_symbols")
    if any(len(b) == 0 for _, _, b in rules):
        out.add("nullary_rule")
    if g.get("family") == "corner":
        out.add("family:shared_left_corners")
    elif g.get("family"):
        out.add("family:" + g["family"])
    return out


def all_strings(V, n):
    V = [cfgref.sym(v) for v in V]
    out = [()]
    frontier = [()]
    for _ in range(n):
        frontier = [x + (a,) for x in frontier for a in V]
        out += frontier
    return out


# ---------------------------------------------------------------------------------------------
# automata / transducers / graphs

STATE_POOLS = {
    "int": list(range(10)),
    "str": ["p", "q", "r", "s", "t", "u", "v", "w", "x", "y"],
    "tuple": [["s", i] for i in range(10)],
}
FREE_W = ["1/2", "1/3", "2", "3", "5/7", "1", "1/4", "3/2"]


def _arc_weights(draw, regime, fanout, acyclic):
    "weights of the `fanout` arcs leaving one state"
    if regime == "BOOL":
        return ["1"] * fanout
    if regime == "MT":
        return [draw(st.sampled_from(["1", "1/2", "1/3", "3/4"])) for _ in range(fanout)]
    if regime == "MP":
        return [str(draw(st.sampled_from([0, -1, -2, -3]))) for _ in range(fanout)]
    if acyclic:
        return [draw(st.sampled_from(FREE_W)) for _ in range(fanout)]
    c = draw(st.sampled_from([Fraction(4, 3), Fraction(2)]))
    return [F(draw(st.sampled_from([Fraction(1), Fraction(3, 4), Fraction(1, 2)])) / (c * fanout)) for _ in range(fanout)]


def _end_weight(draw, regime):
    if regime == "BOOL":
        return "1"
    if regime == "MT":
        return draw(st.sampled_from(["1", "1/2", "2/3"]))
    if regime == "MP":
        return str(draw(st.sampled_from([0, -1, -2])))
    return draw(st.sampled_from(["1", "1/2", "2", "1/3", "3/4"]))


@st.composite
def automaton(draw, regime="QQ", max_states=4, max_arcs=8, alphabet=("a", "b"), eps=True, acyclic=False, pool=None, boost=None, labels=None, signed=False, min_states=1, dynrange=False):
    n = draw(st.integers(min(min_states, max_states), max_states))
    pool = pool or draw(st.sampled_from(["int", "int", "str", "tuple"]))
    if isinstance(pool, str) and draw(st.integers(0, 3)) == 0:
        # state names are arbitrary hashables: a subset of the pool in a drawn order (gaps, no state 0,
        # numbers that are not 0..n-1), so that two machines may also have disjoint state sets
        names = draw(st.lists(st.sampled_from(STATE_POOLS[pool]), min_size=n, max_size=n, unique_by=repr))
    else:
        names = STATE_POOLS[pool][:n] if isinstance(pool, str) else list(pool)[:n]
    n = len(names)
    syms = list(alphabet) + ([""] if eps else [])
    k = draw(st.integers(0, max_arcs))
    raw = []
    for _ in range(k):
        q = draw(st.integers(0, n - 1))
        r = draw(st.integers(0, n - 1))
        if acyclic:
            if q == r:
                continue
            q, r = min(q, r), max(q, r)
        a = draw(st.sampled_from(syms)) if labels is None else draw(labels)
        raw.append((q, a, r))
    by = {}
    for q, a, r in raw:
        by.setdefault(q, []).append((a, r))
    arcs = []
    for q in sorted(by):
        ws = _arc_weights(draw, regime, len(by[q]), acyclic)
        for (a, r), w in zip(by[q], ws):
            arcs.append([names[q], a, names[r], w])
    is_signed = False
    if signed and regime == "QQ" and draw(st.integers(0, 3)) == 0:
        # signed weights (a field is a semiring too); absolute values stay dominated
        for a in arcs:
            if draw(st.integers(0, 2)) == 0:
                a[3] = F(-Fraction(a[3]))
        is_signed = True
    if boost is None:
        boost = draw(st.integers(0, 9)) < 8
    start = [[names[q], _end_weight(draw, regime)] for q in range(n) if draw(st.integers(0, 3)) == 0]
    stop = [[names[q], _end_weight(draw, regime)] for q in range(n) if draw(st.integers(0, 3)) == 0]
    if boost and not start:
        start = [[names[0], _end_weight(draw, regime)]]
    if boost and not stop:
        stop = [[names[n - 1], _end_weight(draw, regime)]]
    wide = False
    if dynrange and regime in ("REAL", "FLOAT") and draw(st.integers(0, 2)) == 0:
        # re-weighting by a potential phi: start/phi(q), w*phi(q)/phi(r), stop*phi(q).  Every path keeps
        # its weight, but single arcs now range over 1e-14 .. 1e14
        phi = {repr(q): Fraction(draw(st.sampled_from(["1/10000000", "1", "10000000"]))) for q in names}
        arcs = [[q, a, r, F(Fraction(w) * phi[repr(q)] / phi[repr(r)])] for q, a, r, w in arcs]
        start = [[q, F(Fraction(w) / phi[repr(q)])] for q, w in start]
        stop = [[q, F(Fraction(w) * phi[repr(q)])] for q, w in stop]
        wide = True
    return {"states": names, "start": start, "stop": stop, "arcs": arcs, "regime": regime, "acyclic": bool(acyclic), "alphabet": list(alphabet), "api": draw(st.sampled_from(["add", "add", "add", "set"])), "signed": is_signed, "wide": wide}


@st.composite
def transducer(draw, regime="QQ", max_states=3, max_arcs=6, A=("a", "b"), B=("a", "b"), acyclic=False, boost=None, min_states=1, dynrange=False):
    lab = st.tuples(st.sampled_from(list(A) + [""]), st.sampled_from(list(B) + [""])).map(list)
    m = draw(automaton(regime=regime, max_states=max_states, max_arcs=max_arcs, acyclic=acyclic, pool="int", boost=boost, labels=lab, min_states=min_states, dynrange=dynrange))
    m["arcs"] = [[q, ab[0], ab[1], r, w] for q, ab, r, w in m["arcs"]]
    return m


def classify_automaton(m):
    out = set()
    if m.get("api") == "set":
        out.add("built_with_set_api")
    if m.get("signed"):
        out.add("signed_weights")
    if m.get("wide"):
        out.add("wide_dynamic_range")
    if not any(list(m["states"]) == STATE_POOLS[k][: len(m["states"])] for k in STATE_POOLS):
        out.add("gapped_state_names")
    arcs = m["arcs"]
    tr = len(arcs[0]) == 5 if arcs else False
    if tr:
        if any(a[1] == "" and a[2] == "" for a in arcs):
            out.add("eps:eps")
        if any(a[1] == "" for a in arcs):
            out.add("eps_input")
        if any(a[2] == "" for a in arcs):
            out.add("eps_output")
        edges = [(a[0], a[3]) for a in arcs]
        eps_edges = [(a[0], a[3]) for a in arcs if a[1] == "" and a[2] == ""]
    else:
        if any(a[1] == "" for a in arcs):
            out.add("eps_arc")
        edges = [(a[0], a[2]) for a in arcs]
        eps_edges = [(a[0], a[2]) for a in arcs if a[1] == ""]
    key = lambda x: repr(x)  # noqa: E731
    if cfgref.find_cycle_rule([(key(x), key(y), i) for i, (x, y) in enumerate(edges)]) is not None:
        out.add("cycle")
    if cfgref.find_cycle_rule([(key(x), key(y), i) for i, (x, y) in enumerate(eps_edges)]) is not None:
        out.add("eps_cycle")
    if len(m["start"]) > 1:
        out.add("multi_initial")
    if len(m["stop"]) > 1:
        out.add("multi_final")
    if {key(q) for q, _ in m["start"]} & {key(q) for q, _ in m["stop"]}:
        out.add("initial_is_final")
    seen = set()
    for a in arcs:
        k = repr(a[:-1])
        if k in seen:
            out.add("parallel_arcs")
        seen.add(k)
    # reachability
    succ, pred = {}, {}
    for x, y in edges:
        succ.setdefault(key(x), set()).add(key(y))
        pred.setdefault(key(y), set()).add(key(x))

    def closure(roots, nb):
        seen, stack = set(roots), list(roots)
        while stack:
            u = stack.pop()
            for v in nb.get(u, ()):
                if v not in seen:
                    seen.add(v)
                    stack.append(v)
        return seen

    acc = closure({key(q) for q, _ in m["start"]}, succ)
    coacc = closure({key(q) for q, _ in m["stop"]}, pred)
    allq = {key(q) for q in m["states"]}
    if allq - acc:
        out.add("unreachable_state")
    if (acc - coacc):
        out.add("dead_state")
    if not (acc & coacc & {key(q) for q, _ in m["stop"]}) :
        out.add("empty_language")
    return out
