"""
Reference semantics of weighted context-free grammars, written from the definitions.

Shares no code and no normal form with the library: no CNF, no nullary/unary removal.  A grammar
is `RG(M, S, V, rules)` with rules = [(weight in model M, head, body tuple)].

  null(G)            least solution of the epsilon subsystem
  inside(G, xs)      weight of xs = sum over derivation trees of the product of rule weights
  total(G)           least solution of the whole equation system (per nonterminal)
  intersect(G, A)    Bar-Hillel product with an epsilon-free weighted automaton
  prefix(G, p)       total weight of all strings that start with p (each string once: the
                     automaton of p.V* is deterministic)
  derivations(G,xs)  brute-force derivation enumeration (self-test only)
"""

import itertools

from vf import lin
from vf.lin import HarnessError


SPARSE_ABOVE = 30


class RG:
    def __init__(self, M, S, V, rules):
        self.M = M
        self.S = S
        self.V = list(V)
        self.Vset = set(V)
        self.rules = [(w, h, tuple(b)) for (w, h, b) in rules if not M.is_zero(w)]
        N = {S}
        for _, h, b in self.rules:
            N.add(h)
            for y in b:
                if y not in self.Vset:
                    N.add(y)
        self.N = sorted(N, key=repr)
        self.idx = {X: i for i, X in enumerate(self.N)}

    def is_t(self, y):
        return y in self.Vset

    @classmethod
    def from_case(cls, M, g):
        return cls(
            M,
            sym(g["S"]),
            [sym(v) for v in g["V"]],
            [(M.parse(w), sym(h), tuple(sym(y) for y in b)) for (w, h, b) in g["rules"]],
        )

    @classmethod
    def from_lib(cls, M, cfg):
        "read a library CFG object as data (rules, start, vocabulary) - no library algorithm runs"
        return cls(M, cfg.S, list(cfg.V), [(M.from_lib(r.w), r.head, tuple(r.body)) for r in cfg.rules])


def sym(x):
    "JSON lists -> tuples (symbols may be nested tuples)"
    if isinstance(x, list):
        return tuple(sym(y) for y in x)
    return x


# ---------------------------------------------------------------------------------------------


def _kleene(M, step, n, what, cap=20000):
    "least fixed point of a monotone polynomial map by iteration from zero"
    x = [M.zero] * n
    for _ in range(cap):
        y = step(x)
        if M.exact:
            if y == x:
                return x
        else:
            if all(_close(M, a, b) for a, b in zip(x, y)):
                return y
        x = y
    raise HarnessError(f"{what}: Kleene iteration did not stabilise in {M.name}")


def _close(M, a, b):
    """stop criterion of a float Kleene iteration: purely *relative* (values such as prefix
    weights of 1e-20 are legitimate and must be converged too), i.e. within ~2 ulp"""
    if isinstance(a, tuple):
        return all(p == q or abs(p - q) <= 4e-16 * abs(q) for p, q in zip(a, b))
    return a == b or abs(a - b) <= 4e-16 * abs(b)


def null(G):
    "dict X -> total weight of derivations X =>* epsilon"
    M = G.M
    erules = [(w, G.idx[h], [G.idx[y] for y in b]) for (w, h, b) in G.rules if all(not G.is_t(y) for y in b)]

    def step(x):
        out = [M.zero] * len(G.N)
        for w, h, b in erules:
            v = w
            for y in b:
                v = M.mul(v, x[y])
                if M.is_zero(v):
                    break
            else:
                out[h] = M.add(out[h], v)
        return out

    x = _kleene(M, step, len(G.N), "null")
    return {X: x[i] for X, i in G.idx.items()}


def total(G):
    "dict X -> sum of the weights of all derivation trees of X (terminals count 1)"
    M = G.M
    rules = [(w, G.idx[h], [G.idx[y] for y in b if not G.is_t(y)]) for (w, h, b) in G.rules]

    def step(x):
        out = [M.zero] * len(G.N)
        for w, h, b in rules:
            v = w
            for y in b:
                v = M.mul(v, x[y])
                if M.is_zero(v):
                    break
            else:
                out[h] = M.add(out[h], v)
        return out

    x = _kleene(M, step, len(G.N), "total")
    return {X: x[i] for X, i in G.idx.items()}


class Inside:
    """inside(xs) for many strings of one grammar (null weights and the same-span closure are
    computed once)."""

    def __init__(self, G):
        self.G = G
        M = G.M
        self.null = null(G)
        n = len(G.N)
        # same-span linear part: A[X][Y] = sum_{X -> alpha Y beta} w * null(alpha) * null(beta)
        A = lin.zeros(M, n)
        for w, h, b in G.rules:
            for k, y in enumerate(b):
                if G.is_t(y):
                    continue
                v = w
                for j, z in enumerate(b):
                    if j != k:
                        v = M.mul(v, self._nullsym(z))
                if not M.is_zero(v):
                    A[G.idx[h]][G.idx[y]] = M.add(A[G.idx[h]][G.idx[y]], v)
        self.A = A
        # small systems: closed form A* (exact elimination in fields).  Large ones (composed
        # grammars with hundreds of nonterminals): sparse iteration of x = A x + b per span.
        self.sparse = None
        if n > SPARSE_ABOVE:
            self.sparse = [[(j, A[i][j]) for j in range(n) if not M.is_zero(A[i][j])] for i in range(n)]
        else:
            self.Astar = lin.mat_star(M, A)

    def _solve(self, b):
        M = self.G.M
        if self.sparse is None:
            return lin.mat_vec(M, self.Astar, b)
        rows = self.sparse

        def step(x):
            out = list(b)
            for i, row in enumerate(rows):
                for j, a in row:
                    if not M.is_zero(x[j]):
                        out[i] = M.add(out[i], M.mul(a, x[j]))
            return out

        return _kleene(M, step, len(b), "same-span system")

    def _nullsym(self, z):
        return self.G.M.zero if self.G.is_t(z) else self.null[z]

    def chart(self, xs):
        G, M = self.G, self.G.M
        n = len(xs)
        c = {}
        for i in range(n + 1):
            c[i, i] = dict(self.null)

        def val(y, p, q, cur):
            "weight of symbol y over span (p,q); the span `cur` itself is still unknown -> zero"
            if G.is_t(y):
                return M.one if (q == p + 1 and xs[p] == y) else M.zero
            if (p, q) == cur:
                return M.zero
            return c[p, q][y]

        for width in range(1, n + 1):
            for i in range(n - width + 1):
                k = i + width
                cur = (i, k)
                b = [M.zero] * len(G.N)
                for w, h, body in G.rules:
                    if not body:
                        continue
                    # f[p] = weight of body[:j] over (i,p), with the unknown same-span items = 0
                    f = {i: M.one}
                    for y in body:
                        g = {}
                        for p, u in f.items():
                            if M.is_zero(u):
                                continue
                            for q in range(p, k + 1):
                                v = val(y, p, q, cur)
                                if M.is_zero(v):
                                    continue
                                g[q] = M.add(g.get(q, M.zero), M.mul(u, v))
                        f = g
                        if not f:
                            break
                    v = f.get(k, M.zero)
                    if not M.is_zero(v):
                        b[G.idx[h]] = M.add(b[G.idx[h]], M.mul(w, v))
                x = self._solve(b)
                c[i, k] = {X: x[j] for X, j in G.idx.items()}
        return c

    def __call__(self, xs, X=None):
        xs = tuple(xs)
        X = self.G.S if X is None else X
        return self.chart(xs)[0, len(xs)][X]


def inside(G, xs):
    return Inside(G)(xs)


# ---------------------------------------------------------------------------------------------
# Bar-Hillel product


def binarize(G):
    "right-fold long bodies; a bijection on derivations, so weights are unchanged"
    rules = []
    fresh = itertools.count()
    for w, h, b in G.rules:
        while len(b) > 2:
            nh = ("$bin", next(fresh))
            rules.append((w, h, (b[0], nh)))
            w, h, b = G.M.one, nh, b[1:]
        rules.append((w, h, b))
    return RG(G.M, G.S, G.V, rules)


class NFA:
    "epsilon-free weighted automaton over a model semiring: plain data"

    def __init__(self, M, n, start, arcs, stop):
        self.M = M
        self.n = n  # states 0..n-1
        self.start = start  # dict q -> w
        self.arcs = arcs  # dict (q, a) -> list of (q2, w)
        self.stop = stop  # dict q -> w


def intersect(G, A, order=None):
    """Grammar whose derivations are the pairs (derivation of G, accepting path of A on its
    yield); weight = product.  `order(q, q2)` may prune impossible state pairs (monotone DFAs)."""
    M = G.M
    G = binarize(G)
    Q = range(A.n)
    ok = order or (lambda q, q2: True)
    S2 = ("$start",)
    rules = []
    for q, wi in A.start.items():
        for q2, wf in A.stop.items():
            if ok(q, q2):
                rules.append((M.mul(wi, wf), S2, ((q, G.S, q2),)))
    for w, h, b in G.rules:
        if len(b) == 0:
            for q in Q:
                rules.append((w, (q, h, q), ()))
        elif len(b) == 1:
            for q in Q:
                for q2 in Q:
                    if ok(q, q2):
                        rules.append((w, (q, h, q2), ((q, b[0], q2),)))
        else:
            for q in Q:
                for q1 in Q:
                    if not ok(q, q1):
                        continue
                    for q2 in Q:
                        if ok(q1, q2):
                            rules.append((w, (q, h, q2), ((q, b[0], q1), (q1, b[1], q2))))
    V2 = []
    for (q, a), outs in A.arcs.items():
        for q2, w in outs:
            if a in G.Vset:
                rules.append((w, (q, a, q2), ()))
    # terminals of G without an arc: the nonterminal (q,a,q2) simply has no rule (weight zero)
    return RG(M, S2, V2, rules)


def compose_total(G, A):
    """sum_x G(x) * A(x) for an epsilon-free weighted automaton A, as the least solution of the
    matrix equations  W_X = sum_{X -> Y1..Ym} w * W_Y1 ... W_Ym  (W_a = arc matrix of a,
    empty product = identity); the answer is start . W_S . stop."""
    M = G.M
    n = A.n
    I = lin.identity(M, n)
    Wt = {}
    for a in G.V:
        m = lin.zeros(M, n)
        for (q, a2), outs in A.arcs.items():
            if a2 == a:
                for q2, w in outs:
                    m[q][q2] = M.add(m[q][q2], w)
        Wt[a] = m
    Gb = binarize(G)
    W = {X: lin.zeros(M, n) for X in Gb.N}

    def val(y):
        return Wt[y] if Gb.is_t(y) else W[y]

    for _ in range(20000):
        new = {X: lin.zeros(M, n) for X in Gb.N}
        for w, h, b in Gb.rules:
            if len(b) == 0:
                P = I
            elif len(b) == 1:
                P = val(b[0])
            else:
                P = lin.mat_mul(M, val(b[0]), val(b[1]))
            tgt = new[h]
            for i in range(n):
                Pi, ti = P[i], tgt[i]
                for j in range(n):
                    if not M.is_zero(Pi[j]):
                        ti[j] = M.add(ti[j], M.mul(w, Pi[j]))
        if M.exact:
            done = new == W
        else:
            done = all(_close(M, W[X][i][j], new[X][i][j]) for X in W for i in range(n) for j in range(n))
        W = new
        if done:
            start = [A.start.get(q, M.zero) for q in range(n)]
            stop = [A.stop.get(q, M.zero) for q in range(n)]
            return lin.dot(M, lin.vec_mat(M, start, W[Gb.S]), stop)
    raise HarnessError("compose_total did not stabilise")


def prefix_dfa(M, V, p):
    n = len(p) + 1
    arcs = {}
    for i, a in enumerate(p):
        arcs[i, a] = [(i + 1, M.one)]
    for a in V:
        arcs[len(p), a] = [(len(p), M.one)]
    return NFA(M, n, {0: M.one}, arcs, {len(p): M.one})


def prefix(G, p):
    "total weight of the strings of G that begin with p (deterministic automaton => once each)"
    A = prefix_dfa(G.M, G.V, tuple(p))
    P = intersect(G, A, order=lambda q, q2: q <= q2)
    return total(P)[P.S]


def string_nfa(M, xs):
    arcs = {(i, a): [(i + 1, M.one)] for i, a in enumerate(xs)}
    return NFA(M, len(xs) + 1, {0: M.one}, arcs, {len(xs): M.one})


# ---------------------------------------------------------------------------------------------
# structure helpers (used by generators for classification / repair and by C07)


def nullable_set(rules, V):
    V = set(V)
    N0 = set()
    changed = True
    while changed:
        changed = False
        for _, h, b in rules:
            if h not in N0 and all((y not in V and y in N0) for y in b):
                N0.add(h)
                changed = True
    return N0


def generating_set(rules, V):
    V = set(V)
    C = set()
    changed = True
    while changed:
        changed = False
        for _, h, b in rules:
            if h not in C and all((y in V or y in C) for y in b):
                C.add(h)
                changed = True
    return C


def reachable_set(rules, S):
    T = {S}
    changed = True
    while changed:
        changed = False
        for _, h, b in rules:
            if h in T:
                for y in b:
                    if y not in T:
                        T.add(y)
                        changed = True
    return T


def unit_graph(rules, V, through_null=True):
    """edges X -> Y (with the index of a witnessing rule) whenever X -> alpha Y beta with alpha,
    beta nullable (through_null) or empty (plain unary rules)"""
    V = set(V)
    N0 = nullable_set(rules, V) if through_null else set()
    E = []
    for r, (_, h, b) in enumerate(rules):
        for k, y in enumerate(b):
            if y in V:
                continue
            rest = b[:k] + b[k + 1 :]
            if all((z not in V and z in N0) for z in rest):
                E.append((h, y, r))
    return E


def find_cycle_rule(E):
    "index of some rule lying on a cycle of the graph E (list of (x, y, rule)), or None"
    succ = {}
    for x, y, r in E:
        succ.setdefault(x, []).append((y, r))

    def reaches(a, b):
        seen, stack = {a}, [a]
        while stack:
            u = stack.pop()
            if u == b:
                return True
            for v, _ in succ.get(u, ()):
                if v not in seen:
                    seen.add(v)
                    stack.append(v)
        return False

    for x, y, r in E:
        if reaches(y, x):
            return r
    return None


def derivations(G, xs, X=None, depth=12):
    "brute-force: list of rule-index multisets (as sorted tuples), one per derivation tree"
    xs = tuple(xs)
    X = G.S if X is None else X
    rules = G.rules

    def der(sym_, i, k, d):
        if G.is_t(sym_):
            if k == i + 1 and xs[i] == sym_:
                yield ()
            return
        if d <= 0:
            return
        for r, (_, h, b) in enumerate(rules):
            if h != sym_:
                continue
            for used in seq(b, i, k, d - 1):
                yield (r,) + used

    def seq(body, i, k, d):
        if not body:
            if i == k:
                yield ()
            return
        for j in range(i, k + 1):
            for u1 in der(body[0], i, j, d):
                for u2 in seq(body[1:], j, k, d):
                    yield u1 + u2

    return [tuple(sorted(u)) for u in der(X, 0, len(xs), depth)]
