"""
Weight regimes: for each regime a *model* semiring (pure Python values, used only by the
reference models) and the matching *library* semiring (what is handed to genlm.grammar).

The reference models never call the library's semiring operators; library results are lifted
into the model domain with `from_lib` and compared there (`eq`).

Case files store weights as strings ("3/4", "-2", "x3", "1"); `parse` turns them into model
values, `to_lib` into library weights.
"""

import math
from fractions import Fraction

from genlm.grammar import semiring as S
from genlm.grammar.semiring import Semiring

FLOAT_RTOL = 1e-7  # see DESIGN 11: the library discards increments below 1e-12 one by one; they add up to 1e-9..1e-8 relative on large normal-form grammars
# absolute slack: the library's own fixed points (null weights, totals) stop when an update is
# below 1e-12, so a value may carry an absolute error of a few 1e-12 whatever its size
FLOAT_ATOL = 1e-10


# ---------------------------------------------------------------------------------------------
# user semirings handed to the library (the suite's test_det uses the same kind of user semiring)


class QQ(Semiring):
    "Exact rational field (Fraction scores) with exact star, inverse powers and hashing."

    def __init__(self, score):
        super().__init__(Fraction(score))

    def __add__(self, other):
        return QQ(self.score + other.score)

    def __mul__(self, other):
        return QQ(self.score * other.score)

    def __pow__(self, k):
        return QQ(self.score**k)

    def __truediv__(self, other):
        return QQ(self.score / other.score)

    def star(self):
        return QQ(1 / (1 - self.score))

    def __hash__(self):
        return hash(self.score)

    def __eq__(self, other):
        return isinstance(other, QQ) and self.score == other.score

    def metric(self, other):
        return abs(self.score - other.score)

    def __repr__(self):
        return f"QQ({self.score})"


QQ.zero = QQ(0)
QQ.one = QQ(1)


def _padd(p, q):
    out = dict(p)
    for m, c in q.items():
        out[m] = out.get(m, 0) + c
    return out


def _pmul(p, q):
    out = {}
    for m1, c1 in p.items():
        for m2, c2 in q.items():
            m = tuple(sorted(m1 + m2))
            out[m] = out.get(m, 0) + c1 * c2
    return out


class Poly(Semiring):
    """Free commutative semiring N[x1..xR]: score is a dict {sorted tuple of variable ids: count}.
    The value of a string under rule weights x_i is the multiset of its derivations."""

    def __init__(self, score):
        super().__init__(score)

    def __add__(self, other):
        return Poly(_padd(self.score, other.score))

    def __mul__(self, other):
        return Poly(_pmul(self.score, other.score))

    def star(self):
        if not self.score:
            return Poly.one
        raise ArithmeticError("star of a non-zero polynomial is not a polynomial")

    def __eq__(self, other):
        return isinstance(other, Poly) and self.score == other.score

    def __hash__(self):
        return hash(frozenset(self.score.items()))

    def metric(self, other):
        return 0 if self.score == other.score else 1

    def __repr__(self):
        return "Poly(%s)" % " + ".join(
            (f"{c}*" if c != 1 else "") + ("·".join(f"x{i}" for i in m) or "1")
            for m, c in sorted(self.score.items())
        )


Poly.zero = Poly({})
Poly.one = Poly({(): 1})


# ---------------------------------------------------------------------------------------------
# model semirings


class Model:
    name = None
    exact = True
    field = False  # has subtraction / division (linear systems solved by elimination)
    idempotent = False
    lib = None

    def add(self, a, b):
        raise NotImplementedError

    def mul(self, a, b):
        raise NotImplementedError

    def eq(self, a, b):
        return a == b

    def is_zero(self, a):
        return self.eq(a, self.zero)

    def parse(self, s):
        raise NotImplementedError

    def to_lib(self, v):
        raise NotImplementedError

    def from_lib(self, w):
        raise NotImplementedError

    def sum(self, xs):
        t = self.zero
        for x in xs:
            t = self.add(t, x)
        return t

    def prod(self, xs):
        t = self.one
        for x in xs:
            t = self.mul(t, x)
        return t

    def show(self, v):
        return str(v)

    def is_lib_weight(self, w):
        "is `w` a well-formed library weight of this regime's semiring (e.g. not a bare int 0)"
        return isinstance(w, self.lib)


class BoolM(Model):
    name = "BOOL"
    idempotent = True
    lib = S.Boolean
    zero = False
    one = True

    def add(self, a, b):
        return a or b

    def mul(self, a, b):
        return a and b

    def star(self, a):
        return True

    def parse(self, s):
        return s not in ("0", "False", False, 0)

    def to_lib(self, v):
        return S.Boolean.one if v else S.Boolean.zero

    def from_lib(self, w):
        return bool(w.score)


class MaxTimesM(Model):
    name = "MT"
    idempotent = True
    lib = S.MaxTimes
    zero = Fraction(0)
    one = Fraction(1)

    def add(self, a, b):
        return max(a, b)

    def mul(self, a, b):
        return a * b

    def star(self, a):
        assert a <= 1
        return Fraction(1)

    def parse(self, s):
        return Fraction(s)

    def to_lib(self, v):
        return S.MaxTimes(Fraction(v))

    def from_lib(self, w):
        return Fraction(w.score)


NEG_INF = float("-inf")


class MaxPlusM(Model):
    name = "MP"
    idempotent = True
    lib = S.MaxPlus
    zero = NEG_INF
    one = 0

    def add(self, a, b):
        return max(a, b)

    def mul(self, a, b):
        if a == NEG_INF or b == NEG_INF:
            return NEG_INF
        return a + b

    def star(self, a):
        assert a <= 0
        return 0

    def parse(self, s):
        return NEG_INF if s in ("-inf",) else int(s)

    def to_lib(self, v):
        return S.MaxPlus(v)

    def from_lib(self, w):
        return w.score


class PolyM(Model):
    "FREE: model values are canonical tuples of ((monomial), count)"

    name = "FREE"
    lib = Poly
    zero = ()
    one = (((), 1),)

    @staticmethod
    def _canon(d):
        return tuple(sorted((m, c) for m, c in d.items() if c != 0))

    def add(self, a, b):
        return self._canon(_padd(dict(a), dict(b)))

    def mul(self, a, b):
        return self._canon(_pmul(dict(a), dict(b)))

    def star(self, a):
        if a == ():
            return self.one
        raise ArithmeticError("star in FREE")

    def parse(self, s):
        if s == "1":
            return self.one
        if s == "0":
            return self.zero
        assert s[0] == "x"
        return (((int(s[1:]),), 1),)

    def to_lib(self, v):
        return Poly(dict(v))

    def from_lib(self, w):
        return self._canon(w.score)

    def show(self, v):
        return repr(Poly(dict(v)))


class QQM(Model):
    name = "QQ"
    field = True
    lib = QQ
    zero = Fraction(0)
    one = Fraction(1)

    def add(self, a, b):
        return a + b

    def mul(self, a, b):
        return a * b

    def star(self, a):
        return 1 / (1 - a)

    def parse(self, s):
        return Fraction(s)

    def to_lib(self, v):
        return QQ(v)

    def from_lib(self, w):
        return Fraction(w.score)


class FloatM(Model):
    "FLOAT: model values are Python floats; comparison with a stated tolerance."

    name = "FLOAT"
    exact = False
    field = True
    lib = S.Float
    zero = 0.0
    one = 1.0
    rtol = FLOAT_RTOL

    def add(self, a, b):
        return a + b

    def mul(self, a, b):
        return a * b

    def star(self, a):
        return 1 / (1 - a)

    atol = FLOAT_ATOL

    def eq(self, a, b):
        if isinstance(a, float) and (math.isnan(a) or math.isinf(a)):
            return False
        return abs(a - b) <= self.rtol * abs(b) + self.atol

    def is_zero(self, a):
        return a == 0  # exact: tiny values are not zero

    def parse(self, s):
        return float(Fraction(s))

    def to_lib(self, v):
        return float(v)

    def from_lib(self, w):
        return float(w)

    def is_lib_weight(self, w):
        return isinstance(w, (int, float)) and not isinstance(w, bool)


class RealM(FloatM):
    name = "REAL"
    lib = S.Real

    def to_lib(self, v):
        return S.Real(float(v))

    def from_lib(self, w):
        return float(w.score)

    def is_lib_weight(self, w):
        return isinstance(w, S.Real)


class LogM(FloatM):
    name = "LOG"
    lib = S.Log

    def to_lib(self, v):
        return S.Log(math.log(v)) if v > 0 else S.Log.zero

    def from_lib(self, w):
        return math.exp(w.score)

    def is_lib_weight(self, w):
        return isinstance(w, S.Log)


class PairM(Model):
    "first-order expectation pairs (p, r): used for Expectation and Entropy"

    exact = False
    zero = (0.0, 0.0)
    one = (1.0, 0.0)
    rtol = FLOAT_RTOL

    def add(self, a, b):
        return (a[0] + b[0], a[1] + b[1])

    def mul(self, a, b):
        return (a[0] * b[0], a[0] * b[1] + a[1] * b[0])

    def star(self, a):
        s = 1 / (1 - a[0])
        return (s, s * s * a[1])

    def eq(self, a, b):
        return all(
            not (math.isnan(x) or math.isinf(x)) and abs(x - y) <= self.rtol * abs(y) + FLOAT_ATOL
            for x, y in zip(a, b)
        )

    def is_zero(self, a):
        return a[0] == 0 and a[1] == 0

    def parse(self, s):
        p, r = s.split(",")
        return (float(Fraction(p)), float(Fraction(r)))

    def from_lib(self, w):
        return (float(w.score[0]), float(w.score[1]))


class ExpectM(PairM):
    name = "EXPECT"
    lib = S.Expectation

    def to_lib(self, v):
        return S.Expectation(v[0], v[1])


class EntropyM(PairM):
    name = "ENTROPY"
    lib = S.Entropy

    def to_lib(self, v):
        return S.Entropy(v[0], v[1])


MODELS = {
    m.name: m
    for m in [
        BoolM(),
        MaxTimesM(),
        MaxPlusM(),
        PolyM(),
        QQM(),
        FloatM(),
        RealM(),
        LogM(),
        ExpectM(),
        EntropyM(),
    ]
}


def model(name):
    return MODELS[name]
