"""
Driver:  ./check <ID> [--tier quick|thorough] [--shards N] [--replay FILE]

Runs the oracle self-test, then N shard subprocesses (one per core, each with its own Hypothesis
seed and PYTHONHASHSEED), merges their reports into evidence/<ID>.json and prints

    VIOLATION property=<ID> replay=<path>        one per distinct unlisted failure bucket
    KNOWN-FINDING: property=<ID> <what fails>    one per listed finding that was observed

Exit 0 = held on everything explored; 1 = unlisted violation; 2 = harness error / inconclusive.
"""

import argparse
import hashlib
import importlib
import json
import os
import subprocess
import sys
import tempfile
import time

from vf import core

PY = sys.executable
TIMEOUT = {"quick": 2400, "thorough": 10800}


def shard_env(seed, k):
    env = dict(os.environ)
    env["PYTHONHASHSEED"] = str((seed * 7919 + k * 104729) % 4294967296)
    env["PYTHONDONTWRITEBYTECODE"] = "1"
    env["PYTHONPATH"] = core.VERIF_ROOT + os.pathsep + core.REPO_ROOT + os.pathsep + env.get("PYTHONPATH", "")
    env["PYTHONWARNINGS"] = "ignore"
    return env


def main(argv=None):
    ap = argparse.ArgumentParser()
    ap.add_argument("pid")
    ap.add_argument("--tier", default=os.environ.get("VERIF_TIER", "quick"), choices=["quick", "thorough"])
    ap.add_argument("--shards", type=int, default=int(os.environ.get("VERIF_SHARDS", "16")))
    ap.add_argument("--replay")
    ap.add_argument("--no-selftest", action="store_true")
    a = ap.parse_args(argv)
    pid = a.pid.upper()
    seed = int(os.environ.get("VERIF_SEED", "1") or 1)
    os.chdir(core.VERIF_ROOT)

    if a.replay:
        doc = json.load(open(a.replay, encoding="utf-8"))
        env = shard_env(seed, 0)
        if isinstance(doc, dict) and doc.get("hashseed") is not None:
            env["PYTHONHASHSEED"] = str(doc["hashseed"])
        return subprocess.call([PY, "-m", "vf.worker", "replay", pid, os.path.abspath(a.replay)], env=env)

    t0 = time.time()
    mod = importlib.import_module("vf.props." + pid.lower())

    if not a.no_selftest:
        r = subprocess.run([PY, "-m", "vf.selftest", pid], env=shard_env(seed, 0), capture_output=True, text=True)
        if r.returncode != 0:
            print(r.stdout[-4000:])
            print(r.stderr[-4000:], file=sys.stderr)
            print(f"HARNESS-ERROR property={pid} oracle self-test failed")
            return 2

    tmp = tempfile.mkdtemp(prefix=f"vf_{pid}_")
    procs = []
    for k in range(a.shards):
        out = os.path.join(tmp, f"shard{k}.json")
        log = open(os.path.join(tmp, f"shard{k}.log"), "w")
        p = subprocess.Popen(
            [PY, "-m", "vf.worker", "run", pid, a.tier, str(seed), str(k), str(a.shards), out],
            env=shard_env(seed, k),
            stdout=log,
            stderr=subprocess.STDOUT,
        )
        procs.append((k, p, out, log))

    deadline = t0 + TIMEOUT[a.tier] * float(os.environ.get("VERIF_TIMEOUT_SCALE", "1"))
    reports, errors = [], []
    for k, p, out, log in procs:
        try:
            p.wait(timeout=max(1, deadline - time.time()))
        except subprocess.TimeoutExpired:
            p.kill()
            p.wait()
            errors.append(f"shard {k}: budget exhausted (inconclusive)")
        log.close()
        if os.path.exists(out):
            rep = json.load(open(out, encoding="utf-8"))
            reports.append(rep)
            if rep.get("error"):
                errors.append(f"shard {k}: {rep['error']}")
        elif not any(e.startswith(f"shard {k}:") for e in errors):
            tail = open(os.path.join(tmp, f"shard{k}.log")).read()[-3000:]
            errors.append(f"shard {k}: exit {p.returncode} without a report\n{tail}")

    # ---- merge
    known = {}
    failures = {}
    nontrivial = set()
    classes = {}
    samples = []
    cases = evals = regs = 0
    for rep in reports:
        cases += rep["cases"]
        evals += rep["evals"]
        regs += rep.get("regressions", 0)
        nontrivial.update(rep["nontrivial"])
        for c, n in rep["classes"].items():
            classes[c] = classes.get(c, 0) + n
        for b, n in rep["known"].items():
            known[b] = known.get(b, 0) + n
        for f in rep["failures"]:
            old = failures.get(f["bucket"])
            if old is None or len(core.dumps(f["case"])) < len(core.dumps(old["case"])):
                failures[f["bucket"]] = f
        samples.extend(rep["samples"])
    samples = samples[:: max(1, len(samples) // 5)][:5]

    outdir = os.path.join(os.environ.get("VERIF_OUT_DIR") or os.path.join(core.VERIF_ROOT, "out"), pid)
    os.makedirs(outdir, exist_ok=True)
    lines = []
    from vf.worker import load_known

    listed = load_known(pid)
    for b, n in sorted(known.items()):
        lines.append(f"KNOWN-FINDING: property={pid} key={b} {listed.get(b, '')} (seen {n}x, excluded from the search)")
    for b, f in sorted(failures.items()):
        name = hashlib.sha1(b.encode()).hexdigest()[:12] + ".json"
        path = os.path.join(outdir, name)
        with open(path, "w", encoding="utf-8") as fh:
            fh.write(core.dumps({"property": pid, **f}, indent=1))
        lines.append(f"VIOLATION property={pid} replay={path}")
        lines.append(f"  bucket={b} :: {f['detail']}")

    wall = round(time.time() - t0, 2)
    evidence = {
        "property_id": pid,
        "tier": a.tier,
        "seed": seed,
        "level": "exploration",
        "coverage": {
            "evaluations": cases,
            "comparisons": evals,
            "distinct_nontrivial": len(nontrivial),
            "rule": mod.RULE,
            "samples": samples,
            "classes": dict(sorted(classes.items())),
            "regressions_replayed": regs,
            "shards": len(reports),
            "hashseeds": sorted({r["hashseed"] for r in reports if r.get("hashseed")}),
            "excluded_known": known,
            "discarded": 0,
            "engine": "hypothesis %s" % _hyp_version(),
        },
        "assumptions": mod.ASSUMPTIONS,
        "wall_s": wall,
        "violations": len(failures),
    }
    if errors:
        evidence["coverage"]["harness_errors"] = errors[:5]
    evdir = os.environ.get("VERIF_EVIDENCE_DIR") or os.path.join(core.VERIF_ROOT, "evidence")
    os.makedirs(evdir, exist_ok=True)
    with open(os.path.join(evdir, f"{pid}.json"), "w", encoding="utf-8") as fh:
        fh.write(core.dumps(evidence, indent=1))

    for ln in lines:
        print(ln)
    print(
        f"{pid} {a.tier} seed={seed}: {cases} cases, {evals} comparisons, {len(nontrivial)} distinct non-trivial, "
        f"{len(failures)} violation bucket(s), {sum(known.values())} known-finding hit(s), {wall}s"
    )
    try:
        import shutil

        shutil.rmtree(tmp)
    except OSError:
        pass
    if failures:
        return 1
    if errors:
        for e in errors[:5]:
            print("HARNESS-ERROR", e, file=sys.stderr)
        print(f"HARNESS-ERROR property={pid} (inconclusive)")
        return 2
    if len(nontrivial) < 2:
        print(f"HARNESS-ERROR property={pid} generator produced <2 non-trivial cases")
        return 2
    return 0


def _hyp_version():
    try:
        import hypothesis

        return hypothesis.__version__
    except Exception:  # noqa: BLE001
        return "?"


if __name__ == "__main__":
    sys.exit(main())
