"""
Validation of the oracles themselves (runs at the start of every check, ~1-2 s).
A failure here is a harness error (exit 2), never a violation.

    python -m vf.selftest [ID]
"""

import itertools
import sys
from fractions import Fraction

from vf import cfgref, lin
from vf.cfgref import RG, Inside
from vf.semi import model


def _expect(cond, msg):
    if not cond:
        raise AssertionError("selftest: " + msg)


def test_inside_vs_bruteforce():
    "FREE regime: inside == multiset of derivations, on finite-derivation grammars"
    M = model("FREE")
    grammars = [
        # nullary rules, unary chain, duplicates, repeated symbols, arity 3
        dict(S="S", V=["a", "b"], rules=[["x1", "S", ["A", "B"]], ["x2", "A", []], ["x3", "A", ["a"]], ["x4", "B", ["A", "A"]], ["x5", "B", ["b"]], ["x6", "S", ["B"]], ["x7", "S", ["B"]]]),
        dict(S="S", V=["a"], rules=[["x1", "S", ["a", "S", "a"]], ["x2", "S", ["a"]], ["x3", "S", ["A"]], ["x4", "A", ["a", "a", "a"]], ["x5", "A", []]]),
        dict(S="S", V=["a", "b"], rules=[["x1", "S", ["S", "S"]], ["x2", "S", ["a"]], ["x3", "S", ["b"]]]),
        dict(S="S", V=["a", "b"], rules=[["x1", "S", ["A", "B", "A"]], ["x2", "A", []], ["x3", "A", ["a"]], ["x4", "B", ["b"]], ["x5", "B", ["A"]]]),
    ]
    for g in grammars:
        G = RG.from_case(M, g)
        ins = Inside(G)
        for n in range(0, 4):
            for xs in itertools.product(g["V"], repeat=n):
                want = {}
                for d in cfgref.derivations(G, xs):
                    m = tuple(int(G.rules[r][0][0][0][0]) for r in d)  # variable ids of the rules used
                    m = tuple(sorted(m))
                    want[m] = want.get(m, 0) + 1
                have = dict(ins(xs))
                _expect(have == want, f"inside vs brute force on {g} xs={xs}: {have} != {want}")


def test_closed_forms():
    M = model("FLOAT")
    # Catalan: 0.2 S->S S, 0.8 S->a ; Z = (1-sqrt(1-4pq))/(2p)
    g = dict(S="S", V=["a"], rules=[["1/5", "S", ["S", "S"]], ["4/5", "S", ["a"]]])
    G = RG.from_case(M, g)
    Z = (1 - (1 - 4 * 0.2 * 0.8) ** 0.5) / (2 * 0.2)
    _expect(abs(cfgref.total(G)["S"] - Z) < 1e-12, "catalan total")
    # prefix weight of () is the total; of ('a',) also (every string starts with a)
    _expect(abs(cfgref.prefix(G, ()) - Z) < 1e-12, "catalan prefix ()")
    _expect(abs(cfgref.prefix(G, ("a",)) - Z) < 1e-12, "catalan prefix (a)")
    w1 = 0.8
    _expect(abs(cfgref.prefix(G, ("a", "a")) - (Z - w1)) < 1e-12, "catalan prefix (a,a)")
    cat = [1, 1, 2, 5]
    ins = Inside(G)
    for n in range(1, 5):
        _expect(abs(ins(("a",) * n) - cat[n - 1] * 0.2 ** (n - 1) * 0.8**n) < 1e-15, "catalan strings")
    # tiny values must not be mistaken for zero (PCFG p=0.0035: pw(a^4) = 1 - w(a) - w(aa) - w(aaa))
    p_, q_ = 0.0034843630077637045, 0.9965156370003821
    G2 = RG(M, "S", ["a"], [(p_, "S", ("S", "S")), (q_, "S", ("a",))])
    tail = cfgref.total(G2)["S"] - q_ - p_ * q_**2 - 2 * p_**2 * q_**3
    _expect(abs(cfgref.prefix(G2, ("a",) * 4) - tail) < 1e-15, "prefix with tiny weights")
    # very small prefix weights must be converged *relatively* (values around 1e-20)
    g3 = dict(S="S", V=["b"], rules=[["1/8", "A", ["S"]], ["3/40", "B", ["A"]], ["1/20", "S", ["b"]], ["1/8", "S", ["B", "B"]]])
    G3 = RG.from_case(M, g3)
    ins3 = Inside(G3)
    for k in range(0, 6):
        bf = sum(ins3(("b",) * n) for n in range(k, 40))
        pk = cfgref.prefix(G3, ("b",) * k)
        _expect(abs(pk - bf) <= 1e-12 * bf, f"tiny prefix weight k={k}: {pk} vs {bf}")
    # exact: finite language, QQ
    Q = model("QQ")
    g = dict(S="S", V=["a", "b"], rules=[["1/2", "S", ["A", "A"]], ["1/3", "A", ["a"]], ["1/4", "A", ["b"]], ["1/5", "A", []]])
    G = RG.from_case(Q, g)
    _expect(cfgref.total(G)["S"] == Fraction(1, 2) * (Fraction(1, 3) + Fraction(1, 4) + Fraction(1, 5)) ** 2, "finite total")
    _expect(cfgref.prefix(G, ("a",)) == Fraction(1, 2) * (Fraction(1, 3) * (Fraction(1, 3) + Fraction(1, 4) + Fraction(1, 5)) + Fraction(1, 5) * Fraction(1, 3)), "finite prefix")
    _expect(Inside(G)(("a",)) == Fraction(1, 2) * 2 * Fraction(1, 3) * Fraction(1, 5), "finite inside")
    # unary cycle closed by exact solve: S -> S (1/2) | a (1/4)  => weight(a) = 1/4 / (1 - 1/2)
    g = dict(S="S", V=["a"], rules=[["1/2", "S", ["S"]], ["1/4", "S", ["a"]]])
    _expect(Inside(RG.from_case(Q, g))(("a",)) == Fraction(1, 2), "unary cycle")
    # nullable + unary interplay: S -> S A (1/2), A -> eps (1/2), S -> a (1/4): same-span coefficient 1/4
    g = dict(S="S", V=["a"], rules=[["1/2", "S", ["S", "A"]], ["1/2", "A", []], ["1/4", "S", ["a"]]])
    _expect(Inside(RG.from_case(Q, g))(("a",)) == Fraction(1, 4) / (1 - Fraction(1, 4)), "nullable unary")


def test_lin():
    Q = model("QQ")
    A = [[Fraction(1, 2), Fraction(1, 4)], [Fraction(0), Fraction(1, 3)]]
    S = lin.mat_star(Q, A)
    # S = I + A S
    AS = lin.mat_mul(Q, A, S)
    for i in range(2):
        for j in range(2):
            _expect(S[i][j] == (1 if i == j else 0) + AS[i][j], "mat_star field")
    B = model("BOOL")
    A = [[False, True, False], [False, False, True], [False, False, False]]
    S = lin.mat_star(B, A)
    _expect(S[0][2] and not S[2][0] and S[1][1], "mat_star bool")


def _lcg(seed):
    x = seed
    while True:
        x = (x * 6364136223846793005 + 1442695040888963407) % 2**64
        yield x >> 33


def _rand_acyclic(rng, n, k, transducer):
    from vf import autoref

    Q = model("QQ")
    arcs = []
    for _ in range(k):
        q = next(rng) % n
        r = next(rng) % n
        if q == r:
            continue
        q, r = min(q, r), max(q, r)
        w = Fraction(1 + next(rng) % 5, 1 + next(rng) % 4)
        lab = ["a", "b", ""]
        if transducer:
            arcs.append((q, lab[next(rng) % 3], lab[next(rng) % 3], r, w))
        else:
            arcs.append((q, lab[next(rng) % 3], r, w))
    start = {0: Fraction(1), (next(rng) % n): Fraction(1, 2)}
    stop = {n - 1: Fraction(2), (next(rng) % n): Fraction(1, 3)}
    return (autoref.RT if transducer else autoref.RA)(Q, n, start, stop, arcs)


def _paths_fst(T, x, y):
    "brute force over accepting paths of an acyclic transducer"
    out = {}
    for q, a, b, r, w in T.arcs:
        out.setdefault(q, []).append((a, b, r, w))
    tot = Fraction(0)
    stack = [(q, 0, 0, w) for q, w in T.start.items()]
    while stack:
        q, i, j, w = stack.pop()
        if i == len(x) and j == len(y) and q in T.stop:
            tot += w * T.stop[q]
        for a, b, r, v in out.get(q, ()):
            if a != "" and not (i < len(x) and x[i] == a):
                continue
            if b != "" and not (j < len(y) and y[j] == b):
                continue
            stack.append((r, i + (a != ""), j + (b != ""), w * v))
    return tot


def test_autoref():
    from vf import autoref, gen

    rng = _lcg(12345)
    S2 = gen.all_strings(["a", "b"], 2)
    for t in range(12):
        A = _rand_acyclic(rng, 4, 7, False)
        W = autoref.Weights(A)
        for xs in gen.all_strings(["a", "b"], 3):
            _expect(W(xs) == autoref.path_sum_bruteforce(A, xs), "automaton weight vs path enumeration")
        tot = sum(autoref.path_sum_bruteforce(A, xs) for xs in gen.all_strings(["a", "b"], 4))
        _expect(autoref.total(A) == tot, "automaton total vs path enumeration")
    for t in range(10):
        T = _rand_acyclic(rng, 3, 6, True)
        U = _rand_acyclic(rng, 3, 6, True)
        for x in S2:
            for y in S2:
                r = autoref.rel(T, x, y)
                _expect(r == _paths_fst(T, x, y), "rel vs path enumeration")
                _expect(r == autoref.rel_lattice(T, x, y), "rel vs lattice solve")
        for x in S2[:3]:
            for z in S2[:3]:
                want = sum(_paths_fst(T, x, y) * _paths_fst(U, y, z) for y in gen.all_strings(["a", "b"], 3))
                _expect(autoref.compose_ref(T, U, x, z) == want, "compose_ref vs brute force")
    # equivalence: permutation + split is equivalent, a changed weight is not
    Q = model("QQ")
    A = autoref.RA(Q, 2, {0: Fraction(1)}, {1: Fraction(1)}, [(0, "a", 1, Fraction(1, 2)), (1, "b", 1, Fraction(1, 3)), (0, "", 1, Fraction(1, 4))])
    B = autoref.RA(Q, 3, {2: Fraction(1)}, {0: Fraction(1), 1: Fraction(1)}, [(2, "a", 0, Fraction(1, 4)), (2, "a", 1, Fraction(1, 4)), (0, "b", 0, Fraction(1, 3)), (1, "b", 0, Fraction(1, 3)), (2, "", 1, Fraction(1, 4))])
    _expect(autoref.equivalent(A, B) is None, "equivalent: split pair")
    C = autoref.RA(Q, 2, {0: Fraction(1)}, {1: Fraction(1)}, [(0, "a", 1, Fraction(1, 2)), (1, "b", 1, Fraction(1, 2)), (0, "", 1, Fraction(1, 4))])
    w = autoref.equivalent(A, C)
    _expect(w == ("a", "b") or w == ("b",), f"equivalent: shortest witness, got {w}")
    _expect(autoref.hankel_rank(A) == 2 and autoref.hankel_rank(B) == 2, "hankel rank")
    Z = autoref.RA(Q, 2, {0: Fraction(1)}, {}, [(0, "a", 1, Fraction(1))])
    _expect(autoref.hankel_rank(Z) == 0 and autoref.equivalent(Z, autoref.RA(Q, 0, {}, {}, [])) is None, "empty language")


TESTS = [test_lin, test_inside_vs_bruteforce, test_closed_forms, test_autoref]


def main():
    pid = sys.argv[1].upper() if len(sys.argv) > 1 else None
    tests = list(TESTS)
    try:
        from vf import selftest_auto

        tests += selftest_auto.tests_for(pid)
    except ImportError:
        pass
    for t in tests:
        t()
    print(f"selftest ok ({len(tests)} groups)")
    return 0


if __name__ == "__main__":
    sys.exit(main())
