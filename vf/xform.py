"""
The grammar transformations offered as equivalence-preserving, addressed by name so that a case
can say which one to apply (shared by C06 language preservation and C07 postconditions).
"""

from vf.build import renamer

SINGLE = [
    "trim",
    "cotrim",
    "binarize",
    "separate_start",
    "separate_terminals",
    "nullaryremove",
    "nullaryremove:nb",
    "nullaryremove:nt",
    "nullaryremove:nb:nt",
    "unaryremove",
    "unarycycleremove",
    "unarycycleremove:nt",
    "cnf",
    "rename:tuple",
    "rename:int",
    "rename:rotate",
    "renumber",
    "unfold",
]


def apply(cfg, name, arg=None):
    "apply transformation `name` to a library grammar; `arg` = (i, k) for unfold"
    if name == "trim":
        return cfg.trim()
    if name == "cotrim":
        return cfg.cotrim()
    if name == "binarize":
        return cfg.binarize()
    if name == "separate_start":
        return cfg.separate_start()
    if name == "separate_terminals":
        return cfg.separate_terminals()
    if name.startswith("nullaryremove"):
        opts = name.split(":")[1:]
        return cfg.nullaryremove(binarize="nb" not in opts, trim="nt" not in opts)
    if name == "unaryremove":
        return cfg.unaryremove()
    if name.startswith("unarycycleremove"):
        return cfg.unarycycleremove(trim="nt" not in name.split(":")[1:])
    if name == "cnf":
        return cfg.cnf
    if name == "rename:rotate":
        # an injective renaming *onto existing names*: rotate all nonterminal symbols, including
        # those that occur only in rule bodies (and have no rules of their own)
        syms = sorted({cfg.S} | {r.head for r in cfg.rules} | {y for r in cfg.rules for y in r.body if cfg.is_nonterminal(y)}, key=repr)
        rot = {x: syms[(i + 1) % len(syms)] for i, x in enumerate(syms)}
        return cfg.rename(lambda x: rot.get(x, x))
    if name.startswith("rename:"):
        return cfg.rename(renamer(name.split(":")[1]))
    if name == "renumber":
        return cfg.renumber()
    if name == "unfold":
        i, k = arg
        return cfg.unfold(i, k)
    raise ValueError(name)


def unfold_sites(cfg):
    return [(i, k) for i, r in enumerate(cfg.rules) for k, y in enumerate(r.body) if cfg.is_nonterminal(y)]
