"""
Turn JSON cases into library objects (the only place where library constructors are called) and
apply the metamorphic variations (rule order, injective renaming of nonterminals).
"""

from vf.cfgref import sym


def renamer(mode):
    if mode in (None, "id"):
        return lambda x: x
    if mode == "tuple":
        return lambda x: ("nt", x)
    if mode == "int":
        table = {}

        def f(x):
            if x not in table:
                table[x] = 1000 + 7 * len(table)
            return table[x]

        return f
    if mode == "str":
        return lambda x: "Q_" + repr(x)
    if mode == "frozen":
        return lambda x: frozenset([x])
    raise ValueError(mode)


def permute(rules, perm):
    """perm: None | 'rev' | int (rotation) -- deterministic reorderings of the rule list"""
    rules = list(rules)
    if perm in (None, 0):
        return rules
    if perm == "rev":
        return rules[::-1]
    k = perm % max(1, len(rules))
    return rules[k:] + rules[:k]


def lib_cfg(M, g, perm=None, rename=None):
    from genlm.grammar import CFG

    f = renamer(rename)
    V = [sym(v) for v in g["V"]]
    Vs = set(V)
    cfg = CFG(R=M.lib, S=f(sym(g["S"])), V=set(V))
    for w, h, b in permute(g["rules"], perm):
        body = [sym(y) for y in b]
        cfg.add(M.to_lib(M.parse(w)), f(sym(h)), *[(y if y in Vs else f(y)) for y in body])
    return cfg


def snapshot(cfg):
    "observable identity of a grammar object: rules (as data), vocabulary, start, nonterminals"
    return (
        [(repr(r.w), repr(r.head), repr(r.body)) for r in cfg.rules],
        sorted(map(repr, cfg.V)),
        repr(cfg.S),
        sorted(map(repr, cfg.N)),
    )


def lib_wfsa(M, c, cls="base"):
    from genlm.grammar.wfsa import base, field_wfsa

    K = base.WFSA if cls == "base" else field_wfsa.WFSA
    m = K(M.lib)
    if c.get("api") == "set":
        # the overwrite-style construction API (set_I / set_F / set_arc), used where an entry occurs
        # once; states are not announced with add_state, they exist through the entries that mention them
        seen = set()
        for kind, items in (("I", c["start"]), ("F", c["stop"]), ("arc", c["arcs"])):
            for it in items:
                key = (kind, repr(it[:-1]))
                w = M.to_lib(M.parse(it[-1]))
                first = key not in seen and not any((kind, repr(o[:-1])) == key for o in items if o is not it)
                seen.add(key)
                if kind == "I":
                    (m.set_I if first else m.add_I)(sym(it[0]), w)
                elif kind == "F":
                    (m.set_F if first else m.add_F)(sym(it[0]), w)
                else:
                    (m.set_arc if first else m.add_arc)(sym(it[0]), sym(it[1]), sym(it[2]), w)
        return m
    for q in c["states"]:
        m.add_state(sym(q))
    for q, w in c["start"]:
        m.add_I(sym(q), M.to_lib(M.parse(w)))
    for q, w in c["stop"]:
        m.add_F(sym(q), M.to_lib(M.parse(w)))
    for q, a, r, w in c["arcs"]:
        m.add_arc(sym(q), sym(a), sym(r), M.to_lib(M.parse(w)))
    return m


def lib_fst(M, c):
    from genlm.grammar import FST

    t = FST(M.lib)
    if c.get("api") == "set":
        # overwrite-style construction API where an entry occurs once (see lib_wfsa)
        for kind, items in (("I", c["start"]), ("F", c["stop"]), ("arc", c["arcs"])):
            for it in items:
                w = M.to_lib(M.parse(it[-1]))
                once = sum(1 for o in items if o[:-1] == it[:-1]) == 1
                if kind == "I":
                    (t.set_I if once else t.add_I)(sym(it[0]), w)
                elif kind == "F":
                    (t.set_F if once else t.add_F)(sym(it[0]), w)
                else:
                    (t.set_arc if once else t.add_arc)(sym(it[0]), (sym(it[1]), sym(it[2])), sym(it[3]), w)
        return t
    for q in c["states"]:
        t.add_state(sym(q))
    for q, w in c["start"]:
        t.add_I(sym(q), M.to_lib(M.parse(w)))
    for q, w in c["stop"]:
        t.add_F(sym(q), M.to_lib(M.parse(w)))
    for q, a, b, r, w in c["arcs"]:
        t.add_arc(sym(q), (sym(a), sym(b)), sym(r), M.to_lib(M.parse(w)))
    return t
