"""
Core plumbing shared by all checks: outcome collection, failure buckets, classification of
exceptions, JSON (de)serialisation helpers, generic case minimiser.
"""

import hashlib
import json
import os
import sys
import traceback
from fractions import Fraction

from vf.lin import HarnessError  # noqa: F401  (re-exported)

REPO_ROOT = os.path.realpath(os.environ.get("VERIF_REPO_ROOT", "/repo"))
VERIF_ROOT = os.path.dirname(os.path.dirname(os.path.realpath(__file__)))


class Found(Exception):
    "raised inside a Hypothesis test when an unlisted failure bucket was hit"


class Fail:
    __slots__ = ("bucket", "detail")

    def __init__(self, bucket, detail):
        self.bucket = bucket
        self.detail = detail

    def to_json(self):
        return {"bucket": self.bucket, "detail": self.detail}


class LibRaised:
    "sentinel returned by Ctx.call when the library raised"

    def __init__(self, exc):
        self.exc = exc

    def __repr__(self):
        return f"<raised {type(self.exc).__name__}: {self.exc}>"


def _repo_frame(tb):
    "innermost traceback frame that lies in the repository under test"
    best = None
    for fs in traceback.extract_tb(tb):
        fn = os.path.realpath(fs.filename)
        if fn.startswith(REPO_ROOT + os.sep):
            best = (os.path.relpath(fn, REPO_ROOT), fs.name)
    return best


class Ctx:
    """Collects what one case established.

    evals       number of oracle comparisons made
    fails       list of Fail (bucket key + human detail)
    nontrivial  set by the check according to the property's stated rule
    classes     structural class labels of the case (for the evidence histogram)
    """

    def __init__(self):
        self.evals = 0
        self.fails = []
        self.nontrivial = False
        self.classes = set()
        self.notes = {}

    def cls(self, *names):
        self.classes.update(n for n in names if n)

    def fail(self, key, detail):
        self.fails.append(Fail(key, detail))

    def check(self, key, ok, detail=""):
        self.evals += 1
        if not ok:
            self.fail(key, detail() if callable(detail) else detail)
        return ok

    def call(self, key, fn, *args, **kwargs):
        """Call into the library.  An exception with a frame inside the repository is a failure
        of the property being checked (bucketed by type and innermost repo function); an
        exception that never entered the repository is the harness' own fault."""
        try:
            return fn(*args, **kwargs)
        except HarnessError:
            raise
        except RecursionError as e:
            self.evals += 1
            self.fail(f"{key}|exc:RecursionError", f"{key}: RecursionError")
            return LibRaised(e)
        except Exception as e:  # noqa: BLE001
            fr = _repo_frame(e.__traceback__)
            if fr is None:
                raise
            self.evals += 1
            self.fail(
                f"{key}|exc:{type(e).__name__}@{fr[0]}:{fr[1]}",
                f"{key}: {type(e).__name__}: {str(e)[:200]} in {fr[0]}:{fr[1]}",
            )
            return LibRaised(e)

    def eq(self, key, M, have, want, what=""):
        "compare a library value (lifted into the model M) with the reference value"
        if isinstance(have, LibRaised):
            return False
        self.evals += 1
        try:
            hv = M.from_lib(have)
            ok_type = M.is_lib_weight(have)
        except Exception:  # noqa: BLE001  -- not a weight of this semiring at all
            self.fail(f"{key}|type", f"{key} {what}: returned {have!r}, not a {M.lib.__name__} weight")
            return False
        if not ok_type:
            self.fail(f"{key}|type", f"{key} {what}: returned {have!r}, not a {M.lib.__name__} weight")
            return False
        if not M.eq(hv, want):
            self.fail(f"{key}|neq", f"{key} {what}: have {M.show(hv)} want {M.show(want)}")
            return False
        return True


# ---------------------------------------------------------------------------------------------
# JSON helpers


def jdefault(o):
    if isinstance(o, Fraction):
        return str(o)
    if isinstance(o, (set, frozenset)):
        return sorted(o, key=repr)
    if isinstance(o, tuple):
        return list(o)
    if isinstance(o, bytes):
        return list(o)
    return repr(o)


def dumps(obj, **kw):
    return json.dumps(obj, default=jdefault, ensure_ascii=False, sort_keys=True, **kw)


def digest(case):
    return hashlib.sha1(dumps(case).encode()).hexdigest()[:16]


def frac(s):
    return Fraction(s)


# ---------------------------------------------------------------------------------------------
# generic minimiser over JSON cases


def _paths(obj, path=()):
    "paths of all lists inside a JSON value"
    if isinstance(obj, list):
        yield path
        for i, x in enumerate(obj):
            yield from _paths(x, path + (i,))
    elif isinstance(obj, dict):
        for k in sorted(obj):
            yield from _paths(obj[k], path + (k,))


def _get(obj, path):
    for p in path:
        obj = obj[p]
    return obj


def _set(obj, path, value):
    "functional update"
    if not path:
        return value
    if isinstance(obj, list):
        out = list(obj)
    else:
        out = dict(obj)
    out[path[0]] = _set(obj[path[0]], path[1:], value)
    return out


def minimise(case, still_fails, budget=300, protect=()):
    """Greedy delta debugging on a JSON case: repeatedly try to delete one element of any list
    (and to shorten strings) while `still_fails(case)` stays true.  `protect` lists top-level
    keys whose lists must not be touched.  At most `budget` evaluations."""
    case = json.loads(dumps(case))
    used = 0
    progress = True
    while progress and used < budget:
        progress = False
        for path in sorted(_paths(case), key=lambda p: (-len(_get(case, p)), p)):
            if path and path[0] in protect:
                continue
            try:
                lst = _get(case, path)
            except (KeyError, IndexError, TypeError):
                continue
            if not isinstance(lst, list):
                continue
            i = len(lst) - 1
            while i >= 0 and used < budget:
                lst = _get(case, path)
                if i >= len(lst):
                    i = len(lst) - 1
                    continue
                cand = _set(case, path, lst[:i] + lst[i + 1 :])
                used += 1
                try:
                    bad = still_fails(cand)
                except Exception:  # noqa: BLE001 -- a malformed reduction is simply not kept
                    bad = False
                if bad:
                    case = cand
                    progress = True
                i -= 1
    return case, used


def eprint(*a):
    print(*a, file=sys.stderr, flush=True)
