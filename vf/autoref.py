"""
Reference semantics of weighted automata and transducers: dense matrices over a model semiring.

    weight(A, xs) = alpha E* M_x1 E* ... M_xn E* beta          (E = epsilon arcs)
    total(A)      = alpha (E + sum_a M_a)* beta
    rel(T, x, y)  = total weight of the lattice graph on nodes (q, i, j)
    compose_ref   = sum_y f(x,y) g(y,z) as the total weight of the Hadamard product of the two
                    epsilon-free cross-sections (paths of a product of epsilon-free automata are in
                    bijection with pairs of matching paths: "each pair exactly once")
    equivalent    = exact Tzeng / Schuetzenberger test over Q, returns a shortest-first witness
    hankel_rank   = rank(F . B) of forward and backward bases over Q

An automaton is `RA(M, n, start, stop, arcs)` with states 0..n-1, arcs = [(q, a, r, w)], a == ""
for epsilon.  A transducer is `RT(...)` with arcs = [(q, a, b, r, w)].
"""

from fractions import Fraction

from vf import lin
from vf.cfgref import NFA, sym

EPS = ""


class RA:
    def __init__(self, M, n, start, stop, arcs, names=None):
        self.M = M
        self.n = n
        self.start = dict(start)
        self.stop = dict(stop)
        self.arcs = list(arcs)
        self.names = names

    @property
    def alphabet(self):
        return sorted({a for _, a, _, _ in self.arcs if a != EPS}, key=repr)

    @classmethod
    def from_case(cls, M, c):
        names = [sym(x) for x in c["states"]]
        ix = {q: i for i, q in enumerate(names)}
        return cls(
            M,
            len(names),
            _acc(M, [(ix[sym(q)], M.parse(w)) for q, w in c["start"]]),
            _acc(M, [(ix[sym(q)], M.parse(w)) for q, w in c["stop"]]),
            [(ix[sym(q)], sym(a), ix[sym(r)], M.parse(w)) for q, a, r, w in c["arcs"]],
            names,
        )

    @classmethod
    def from_lib(cls, M, m):
        "read a library WFSA as plain data"
        names = sorted(m.states, key=repr)
        ix = {q: i for i, q in enumerate(names)}
        start = _acc(M, [(ix[q], M.from_lib(w)) for q, w in m.start.items()])
        stop = _acc(M, [(ix[q], M.from_lib(w)) for q, w in m.stop.items()])
        arcs = [(ix[i], a, ix[j], M.from_lib(w)) for i, a, j, w in m.arcs()]
        return cls(M, len(names), start, stop, arcs, names)


class RT:
    def __init__(self, M, n, start, stop, arcs, names=None):
        self.M = M
        self.n = n
        self.start = dict(start)
        self.stop = dict(stop)
        self.arcs = list(arcs)
        self.names = names

    @classmethod
    def from_case(cls, M, c):
        names = [sym(x) for x in c["states"]]
        ix = {q: i for i, q in enumerate(names)}
        return cls(
            M,
            len(names),
            _acc(M, [(ix[sym(q)], M.parse(w)) for q, w in c["start"]]),
            _acc(M, [(ix[sym(q)], M.parse(w)) for q, w in c["stop"]]),
            [(ix[sym(q)], sym(a), sym(b), ix[sym(r)], M.parse(w)) for q, a, b, r, w in c["arcs"]],
            names,
        )

    @classmethod
    def from_lib(cls, M, t):
        names = sorted(t.states, key=repr)
        ix = {q: i for i, q in enumerate(names)}
        start = _acc(M, [(ix[q], M.from_lib(w)) for q, w in t.start.items()])
        stop = _acc(M, [(ix[q], M.from_lib(w)) for q, w in t.stop.items()])
        arcs = []
        for i, ab, j, w in t.arcs():
            a, b = ab
            arcs.append((ix[i], a, b, ix[j], M.from_lib(w)))
        return cls(M, len(names), start, stop, arcs, names)


def _acc(M, pairs):
    d = {}
    for q, w in pairs:
        d[q] = M.add(d.get(q, M.zero), w)
    return {q: w for q, w in d.items() if not M.is_zero(w)}


def _vec(M, n, d):
    return [d.get(i, M.zero) for i in range(n)]


def _mat(M, n, triples):
    A = lin.zeros(M, n)
    for i, j, w in triples:
        A[i][j] = M.add(A[i][j], w)
    return A


class Weights:
    "precomputed matrices of one automaton"

    def __init__(self, A):
        M, n = A.M, A.n
        self.A = A
        self.alpha = _vec(M, n, A.start)
        self.beta = _vec(M, n, A.stop)
        self.Estar = lin.mat_star(M, _mat(M, n, [(q, r, w) for q, a, r, w in A.arcs if a == EPS]))
        self.Ma = {}
        for q, a, r, w in A.arcs:
            if a != EPS:
                self.Ma.setdefault(a, lin.zeros(M, n))
                self.Ma[a][q][r] = M.add(self.Ma[a][q][r], w)

    def __call__(self, xs):
        M = self.A.M
        v = lin.vec_mat(M, self.alpha, self.Estar)
        for x in xs:
            Mx = self.Ma.get(x)
            if Mx is None:
                return M.zero
            v = lin.vec_mat(M, lin.vec_mat(M, v, Mx), self.Estar)
        return lin.dot(M, v, self.beta)


def weight(A, xs):
    return Weights(A)(xs)


def total(A):
    M, n = A.M, A.n
    G = _mat(M, n, [(q, r, w) for q, a, r, w in A.arcs])
    return lin.dot(M, lin.vec_mat(M, _vec(M, n, A.start), lin.mat_star(M, G)), _vec(M, n, A.stop))


def backward(A):
    "b[q] = total weight of all paths from q to acceptance"
    M, n = A.M, A.n
    G = _mat(M, n, [(q, r, w) for q, a, r, w in A.arcs])
    return lin.mat_vec(M, lin.mat_star(M, G), _vec(M, n, A.stop))


def path_sum_bruteforce(A, xs, limit=200000):
    "enumerate accepting paths spelling xs (acyclic automata only; self-test)"
    M = A.M
    out = {}
    for q, a, r, w in A.arcs:
        out.setdefault(q, []).append((a, r, w))
    tot = M.zero
    stack = [(q, 0, w) for q, w in A.start.items()]
    steps = 0
    while stack:
        q, i, w = stack.pop()
        steps += 1
        if steps > limit:
            raise lin.HarnessError("path enumeration exploded (cyclic automaton?)")
        if i == len(xs) and q in A.stop:
            tot = M.add(tot, M.mul(w, A.stop[q]))
        for a, r, v in out.get(q, ()):
            if a == EPS:
                stack.append((r, i, M.mul(w, v)))
            elif i < len(xs) and xs[i] == a:
                stack.append((r, i + 1, M.mul(w, v)))
    return tot


# ---------------------------------------------------------------------------------------------
# transducers


def rel(T, x, y):
    """weight of the pair (x, y): all accepting paths with input x and output y.
    Layered over lattice positions (i, j): inside a layer only eps:eps arcs move, closed by one
    n x n star; between layers the arcs consuming x_i and / or y_j."""
    M, n = T.M, T.n
    E = _mat(M, n, [(q, r, w) for q, a, b, r, w in T.arcs if a == EPS and b == EPS])
    Es = lin.mat_star(M, E)
    mats = {}
    for q, a, b, r, w in T.arcs:
        if a == EPS and b == EPS:
            continue
        mats.setdefault((a, b), lin.zeros(M, n))
        mats[(a, b)][q][r] = M.add(mats[(a, b)][q][r], w)
    X, Y = len(x), len(y)
    v = {}
    for i in range(X + 1):
        for j in range(Y + 1):
            acc = _vec(M, n, T.start) if (i, j) == (0, 0) else [M.zero] * n
            for (di, dj) in ((1, 0), (0, 1), (1, 1)):
                if i - di < 0 or j - dj < 0:
                    continue
                lab = (x[i - 1] if di else EPS, y[j - 1] if dj else EPS)
                Mx = mats.get(lab)
                if Mx is None:
                    continue
                u = lin.vec_mat(M, v[i - di, j - dj], Mx)
                acc = [M.add(p, q) for p, q in zip(acc, u)]
            v[i, j] = lin.vec_mat(M, acc, Es)
    return lin.dot(M, v[X, Y], _vec(M, n, T.stop))


def rel_lattice(T, x, y):
    "same quantity by one big linear solve on the lattice graph (self-test cross-check of `rel`)"
    M, n = T.M, T.n
    X, Y = len(x) + 1, len(y) + 1

    def node(q, i, j):
        return (q * X + i) * Y + j

    N = n * X * Y
    tri = []
    for q, a, b, r, w in T.arcs:
        for i in range(X):
            if a != EPS and not (i < len(x) and x[i] == a):
                continue
            i2 = i + (a != EPS)
            for j in range(Y):
                if b != EPS and not (j < len(y) and y[j] == b):
                    continue
                j2 = j + (b != EPS)
                tri.append((node(q, i, j), node(r, i2, j2), w))
    alpha = [M.zero] * N
    beta = [M.zero] * N
    for q, w in T.start.items():
        alpha[node(q, 0, 0)] = w
    for q, w in T.stop.items():
        beta[node(q, len(x), len(y))] = w
    keep = _reach(N, tri, [i for i, w in enumerate(alpha) if not M.is_zero(w)])
    idx = {v: k for k, v in enumerate(keep)}
    G2 = _mat(M, len(keep), [(idx[u], idx[v], w) for u, v, w in tri if u in idx and v in idx])
    a2 = [alpha[v] for v in keep]
    b2 = [beta[v] for v in keep]
    return lin.dot(M, lin.vec_mat(M, a2, lin.mat_star(M, G2)), b2)


def _reach(N, tri, roots):
    succ = {}
    for u, v, _ in tri:
        succ.setdefault(u, []).append(v)
    seen = set(roots)
    stack = list(roots)
    while stack:
        u = stack.pop()
        for v in succ.get(u, ()):
            if v not in seen:
                seen.add(v)
                stack.append(v)
    return sorted(seen)


def _epsfree(M, n, alpha, beta, arcs):
    """epsilon removal on plain data: arcs (q, a, r, w) with a == EPS for epsilon; returns NFA
    (start = alpha E*, arcs = M_a E*, stop = beta)."""
    Es = lin.mat_star(M, _mat(M, n, [(q, r, w) for q, a, r, w in arcs if a == EPS]))
    start = lin.vec_mat(M, alpha, Es)
    out = {}
    for q, a, r, w in arcs:
        if a == EPS:
            continue
        for r2 in range(n):
            v = M.mul(w, Es[r][r2])
            if not M.is_zero(v):
                out.setdefault((q, a), {})
                out[(q, a)][r2] = M.add(out[(q, a)].get(r2, M.zero), v)
    return NFA(
        M,
        n,
        {q: w for q, w in enumerate(start) if not M.is_zero(w)},
        {k: list(d.items()) for k, d in out.items()},
        {q: w for q, w in enumerate(beta) if not M.is_zero(w)},
    )


def cross_section(T, side, s):
    """side='in':  fix the input string s, return the epsilon-free automaton over *output* symbols
    side='out': fix the output string s, return the epsilon-free automaton over *input* symbols"""
    M, n = T.M, T.n
    L = len(s) + 1
    arcs = []
    for q, a, b, r, w in T.arcs:
        fixed, free = (a, b) if side == "in" else (b, a)
        for i in range(L):
            if fixed != EPS and not (i < len(s) and s[i] == fixed):
                continue
            i2 = i + (fixed != EPS)
            arcs.append((q * L + i, free, r * L + i2, w))
    alpha = [M.zero] * (n * L)
    beta = [M.zero] * (n * L)
    for q, w in T.start.items():
        alpha[q * L] = w
    for q, w in T.stop.items():
        beta[q * L + len(s)] = w
    return _epsfree(M, n * L, alpha, beta, arcs)


def acceptor_nfa(A):
    "epsilon-free NFA of an automaton (for Bar-Hillel products)"
    M = A.M
    return _epsfree(M, A.n, _vec(M, A.n, A.start), _vec(M, A.n, A.stop), A.arcs)


def hadamard_total(M, A, B):
    "sum_y A(y) B(y) for two epsilon-free NFAs"
    nA, nB = A.n, B.n
    N = nA * nB
    tri = []
    for (q, a), outs in A.arcs.items():
        for (p, b), outs2 in B.arcs.items():
            if a != b:
                continue
            for q2, w in outs:
                for p2, v in outs2:
                    tri.append((q * nB + p, q2 * nB + p2, M.mul(w, v)))
    alpha = [M.zero] * N
    beta = [M.zero] * N
    for q, w in A.start.items():
        for p, v in B.start.items():
            alpha[q * nB + p] = M.mul(w, v)
    for q, w in A.stop.items():
        for p, v in B.stop.items():
            beta[q * nB + p] = M.mul(w, v)
    keep = _reach(N, tri, [i for i, w in enumerate(alpha) if not M.is_zero(w)])
    idx = {v: k for k, v in enumerate(keep)}
    G = _mat(M, len(keep), [(idx[u], idx[v], w) for u, v, w in tri if u in idx and v in idx])
    return lin.dot(M, lin.vec_mat(M, [alpha[v] for v in keep], lin.mat_star(M, G)), [beta[v] for v in keep])


def compose_ref(f, g, x, z):
    "sum over intermediate strings y of f(x, y) * g(y, z)"
    return hadamard_total(f.M, cross_section(f, "in", x), cross_section(g, "out", z))


# ---------------------------------------------------------------------------------------------
# exact equivalence and Hankel rank over Q


def _rowspace_add(basis, v):
    "basis: list of (pivot index, vector) in reduced form; returns True if v was independent"
    v = list(v)
    for p, b in basis:
        if v[p] != 0:
            f = v[p] / b[p]
            v = [x - f * y for x, y in zip(v, b)]
    p = next((i for i, x in enumerate(v) if x != 0), None)
    if p is None:
        return False
    basis.append((p, v))
    return True


def _q_mats(A):
    "epsilon-free matrices over Q of an automaton with Fraction weights"
    from vf.semi import model

    Q = model("QQ")
    W = Weights(RA(Q, A.n, A.start, A.stop, A.arcs))
    alpha = lin.vec_mat(Q, W.alpha, W.Estar)
    Ms = {a: lin.mat_mul(Q, Mx, W.Estar) for a, Mx in W.Ma.items()}
    return alpha, Ms, W.beta


def equivalent(A, B):
    """None if A and B assign the same weight to every string, else a witness string (tuple).
    Exact over Q: forward space of the difference automaton, breadth-first (shortest witness)."""
    aA, MA, bA = _q_mats(A)
    aB, MB, bB = _q_mats(B)
    nA, nB = A.n, B.n
    sigma = sorted(set(MA) | set(MB), key=repr)
    zero = Fraction(0)

    def stepv(v, a):
        va, vb = v[:nA], v[nA:]
        ua = lin.vec_mat(_Q(), va, MA[a]) if a in MA else [zero] * nA
        ub = lin.vec_mat(_Q(), vb, MB[a]) if a in MB else [zero] * nB
        return ua + ub

    eta = list(bA) + [-x for x in bB]
    v0 = list(aA) + list(aB)
    basis = []
    queue = [((), v0)]
    while queue:
        w, v = queue.pop(0)
        if sum(x * y for x, y in zip(v, eta)) != 0:
            return w
        if _rowspace_add(basis, v):
            for a in sigma:
                queue.append((w + (a,), stepv(v, a)))
    return None


def _Q():
    from vf.semi import model

    return model("QQ")


def hankel_rank(A):
    "rank of the Hankel matrix of A's series = rank(F B) for forward basis F and backward basis B"
    alpha, Ms, beta = _q_mats(A)
    Q = _Q()
    n = A.n

    def space(v0, mul):
        basis, vecs, queue = [], [], [v0]
        while queue:
            v = queue.pop()
            if _rowspace_add(basis, v):
                vecs.append(v)
                for a in Ms:
                    queue.append(mul(v, Ms[a]))
        return vecs

    F = space(list(alpha), lambda v, Mx: lin.vec_mat(Q, v, Mx))
    Bk = space(list(beta), lambda v, Mx: lin.mat_vec(Q, Mx, v))
    if not F or not Bk:
        return 0
    prod = [[sum(f[i] * b[i] for i in range(n)) for b in Bk] for f in F]
    basis = []
    r = 0
    for row in prod:
        if _rowspace_add(basis, row):
            r += 1
    return r
