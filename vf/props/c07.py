"""
C07  Normal forms satisfy their structural postconditions.

Validity predicates written in the harness (own SCC test, own reachability / generating sets) over
the rule lists of the transformed grammars.  The converse direction (nothing useful is lost) is C06.
"""

from hypothesis import strategies as st

from vf import cfgref, gen
from vf.build import lib_cfg
from vf.core import LibRaised
from vf.semi import model

ID = "C07"
RULE = (
    "case = (grammar incl. raw ones with useless symbols / unproductive start / nullable and unary "
    "cycles, regime, rule rotation); cnf, nullaryremove (4 option pairs), unaryremove, "
    "unarycycleremove (2), binarize, separate_start, separate_terminals, trim are applied and the "
    "shape of the result is checked by harness predicates; non-trivial = the input grammar violates "
    "at least one of the postconditions being checked; distinct = SHA-1 of the case"
)
ASSUMPTIONS = [
    "'useful' = reachable from the start symbol and generating, both evaluated in the result grammar",
    "trim() must return a sub-multiset of the input rules",
    "structure only; that no useful rule is dropped is covered by C06",
]
REGIMES = ["BOOL", "BOOL", "MT", "QQ", "FLOAT", "FREE"]


def examples(tier):
    return 2400 if tier == "quick" else 24000


@st.composite
def strategy(draw, tier="quick"):
    boost = draw(st.sampled_from([True, False, False]))
    g = draw(gen.grammar(regimes=REGIMES, boost=boost, symbols=True, signed=True, cancel=True, **gen.size(tier)))
    return {
        "pick": draw(st.integers(0, 30)),
        "g": g, "perm": draw(st.sampled_from([0, 1, "rev"]))}


def rules_of(cfg):
    return [(r.w, r.head, tuple(r.body)) for r in cfg.rules]


def unary_cyclic(rules, V):
    E = [(h, b[0], i) for i, (_, h, b) in enumerate(rules) if len(b) == 1 and b[0] not in V]
    return cfgref.find_cycle_rule(E) is not None


def viol_cnf(rules, V, S):
    for _, h, b in rules:
        if len(b) == 0 and h == S:
            continue
        if len(b) == 1 and b[0] in V:
            continue
        if len(b) == 2 and all(y not in V and y != S for y in b):
            continue
        return f"{h} -> {b}"
    return None


def viol_nullary(rules, V, S):
    return next((f"{h} -> eps" for _, h, b in rules if len(b) == 0 and h != S), None)


def viol_unary(rules, V, S):
    return next((f"{h} -> {b[0]}" for _, h, b in rules if len(b) == 1 and b[0] not in V), None)


def viol_unarycycle(rules, V, S):
    return "unary cycle" if unary_cyclic(rules, V) else None


def viol_binarize(rules, V, S):
    return next((f"{h} -> {b}" for _, h, b in rules if len(b) > 2), None)


def viol_sepstart(rules, V, S):
    return next((f"{h} -> {b}" for _, h, b in rules if S in b), None)


def viol_septerm(rules, V, S):
    return next((f"{h} -> {b}" for _, h, b in rules if len(b) != 1 and any(y in V for y in b)), None)


def viol_trim(rules, V, S):
    C = cfgref.generating_set(rules, V)
    T = cfgref.reachable_set(rules, S)
    for _, h, b in rules:
        for y in (h,) + tuple(b):
            if y in V:
                continue
            if y not in T:
                return f"{y} unreachable in {h} -> {b}"
            if y not in C:
                return f"{y} derives no terminal string, in {h} -> {b}"
    return None


def viol_cotrim(rules, V, S):
    C = cfgref.generating_set(rules, V)
    for _, h, b in rules:
        for y in (h,) + tuple(b):
            if y not in V and y not in C:
                return f"{y} derives no terminal string, in {h} -> {b}"
    return None


CHECKS = [
    ("cnf", lambda c: c.cnf, viol_cnf),
    ("nullaryremove", lambda c: c.nullaryremove(), viol_nullary),
    ("nullaryremove:nb", lambda c: c.nullaryremove(binarize=False), viol_nullary),
    ("nullaryremove:nt", lambda c: c.nullaryremove(trim=False), viol_nullary),
    ("nullaryremove:nb:nt", lambda c: c.nullaryremove(binarize=False, trim=False), viol_nullary),
    ("unaryremove", lambda c: c.unaryremove(), viol_unary),
    ("unarycycleremove", lambda c: c.unarycycleremove(), viol_unarycycle),
    ("unarycycleremove:nt", lambda c: c.unarycycleremove(trim=False), viol_unarycycle),
    ("binarize", lambda c: c.binarize(), viol_binarize),
    ("separate_start", lambda c: c.separate_start(), viol_sepstart),
    ("separate_terminals", lambda c: c.separate_terminals(), viol_septerm),
    ("trim", lambda c: c.trim(), viol_trim),
    ("cotrim", lambda c: c.cotrim(), viol_cotrim),
    ("cnf.trim", lambda c: c.cnf, viol_trim),
]


def check(case, ctx):
    g = case["g"]
    M = model(g["regime"])
    ctx.cls(*gen.classify(g), "regime:" + g["regime"])
    cfg = ctx.call("build", lib_cfg, M, g, case.get("perm"))
    V = set(cfg.V)
    inp = rules_of(cfg)
    # has_unary_cycle agrees with the harness' own cycle search on the unary-rule graph
    U = [(h, b[0], i) for i, (_, h, b) in enumerate(inp) if len(b) == 1 and b[0] not in V]
    huc = ctx.call("has_unary_cycle", cfg.has_unary_cycle)
    if not isinstance(huc, LibRaised):
        ctx.check("has_unary_cycle", bool(huc) == (cfgref.find_cycle_rule(U) is not None), lambda: f"has_unary_cycle() = {huc} but the unary graph {[(h, y) for h, y, _ in U]} says otherwise")
    for name, fn, pred in CHECKS:
        if pred(inp, V, cfg.S) is not None:
            ctx.nontrivial = True
            ctx.cls("violates:" + name.split(":")[0])
        new = ctx.call(name, fn, cfg)
        if isinstance(new, LibRaised):
            continue
        out = rules_of(new)
        bad = pred(out, set(new.V), new.S)
        ctx.check(f"{name}|shape", bad is None, lambda: f"{name}: result violates its postcondition: {bad}")
        if name in ("trim", "cotrim"):
            # sub-multiset of the input rules
            pool = [(repr(w), repr(h), repr(b)) for w, h, b in inp]
            ok = True
            for w, h, b in out:
                k = (repr(w), repr(h), repr(b))
                if k in pool:
                    pool.remove(k)
                else:
                    ok = False
            ctx.check(f"{name}|subset", ok, f"{name}: result contains a rule that is not an input rule")
        if name == "trim" and "empty_language" in ctx.classes:
            ctx.check("trim|empty", len(out) == 0, lambda: f"trim: empty language but {len(out)} rules remain")
        if name == "cnf":
            ctx.check("cnf|in_cnf", ctx.call("in_cnf", new.in_cnf) is True, "cnf: in_cnf() is not True")

    # ---- trimming a re-weighted copy of a trimmed grammar (map_values with a map that sends some
    # weights to zero drops those rules; the copy must be trimmed on its own merits)
    for first in ("trim", "cotrim", "nullaryremove"):
        t = ctx.call("reweight." + first, lambda: getattr(cfg, first)())
        if isinstance(t, LibRaised) or not t.rules:
            continue
        target = t.rules[case.get("pick", 0) % len(t.rules)].w
        mv = ctx.call("map_values", t.map_values, lambda w: (cfg.R.zero if w == target else w), cfg.R)
        if isinstance(mv, LibRaised):
            continue
        for name, pred in (("trim", viol_trim), ("cotrim", viol_cotrim)):
            res = ctx.call("reweight.then." + name, lambda: getattr(mv, name)())
            if isinstance(res, LibRaised):
                continue
            bad = pred(rules_of(res), set(res.V), res.S)
            ctx.check(f"{name}|after_map_values", bad is None, lambda: f"{first}() -> map_values (rules of weight {target} dropped) -> {name}(): {bad}")
