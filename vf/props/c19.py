"""
C19  Character- and byte-level grammars built from Lark grammars.

Oracle: vf.larkref.Matcher -- the substitution semantics implemented directly over the harness'
own grammar AST with Python's `re` for the terminals.  No Lark / genlm code in the reference.
"""

import warnings

from hypothesis import strategies as st

from vf import gen, larkref, regexref
from vf.core import LibRaised

ID = "C19"
POOL = ["a", "b", "é", "ü", "ß", "€", "S"]
# characters of three and four bytes whose encodings share a byte value under different prefixes
# (E2 82 AC / E3 82 A2, E4 B8 AD / E5 B8 88, E2 98 83 / F0 9F 98 80): one case in six draws from these
SHARING = ["€", "ア", "中", "师", "☃", "😀"]
RULE = (
    "case = (Lark grammar printed from the harness AST: 1-3 rules using sequence, alternation, ?, [], "
    "*, +, ~n..m, groups, rule references incl. recursion, named terminals and anonymous string "
    "literals; 1-3 terminals defined by strings (optionally case-insensitive, incl. sharp s), small "
    "regexes with classes / negated classes / dot / +, or compositions of other terminals; optional "
    "%ignore of one or two terminals; character set of 2-4 characters incl. multi-byte ones (one case in six: 3- and 4-byte characters sharing a byte value under different prefixes); recursion "
    "left|right); candidates = all strings <=3 over the set, strings sampled from the grammar, their "
    "deletions / insertions / substitutions / transpositions; for bytes additionally truncated "
    "encodings and invalid continuation bytes; char_cfg()(text)>0 <=> reference accepts; "
    "byte_cfg()(bs)>0 <=> bs is valid UTF-8 and the reference accepts its decoding; N and V disjoint, no "
    "byte-valued nonterminal; non-trivial = accepted and rejected candidates both present; "
    "distinct = SHA-1 of the case"
)
ASSUMPTIONS = [
    "grammars that Lark itself rejects are counted as discarded, not judged",
    "terminals never match the empty string (Lark forbids zero-width terminals)",
    "acceptance only; weights are not asserted (the statement is about accepted strings)",
    "texts are over the character set that is passed as charset=",
]


def examples(tier):
    return 400 if tier == "quick" else 6000


# ---- generation -----------------------------------------------------------------------------


@st.composite
def t_regex(draw, chars):
    "non-nullable regex AST"

    def atom():
        k = draw(st.integers(0, 6))
        if k <= 3:
            return ["lit", draw(st.sampled_from(chars))]
        if k == 4:
            return ["dot"]
        items = [["ch", draw(st.sampled_from(chars))] for _ in range(draw(st.integers(1, 2)))]
        return ["cls", items, draw(st.booleans())]

    k = draw(st.integers(0, 5))
    if k <= 1:
        return atom()
    if k == 2:
        return ["rep", atom(), 1, None]
    if k == 3:
        return ["cat", [atom(), atom()]]
    if k == 4:
        return ["alt", [atom(), ["cat", [atom(), atom()]]]]
    return ["cat", [atom(), ["rep", atom(), 0, 1]]]


@st.composite
def tdef(draw, chars, earlier):
    k = draw(st.integers(0, 9))
    if k <= 4 or (k >= 8 and not earlier):
        lit = "".join(draw(st.lists(st.sampled_from(chars), min_size=1, max_size=2)))
        return ["str", lit, draw(st.integers(0, 3)) == 0]
    if k <= 7:
        return ["re", draw(t_regex(chars))]
    ref = ["ref", draw(st.sampled_from(earlier))]
    other = ["str", draw(st.sampled_from(chars)), False]
    return draw(st.sampled_from([["seq", [ref, other]], ["seq", [other, ref]], ["alt", [ref, other]]]))


@st.composite
def expr(draw, rules, terms, chars, depth):
    if depth == 0 or draw(st.integers(0, 9)) < 3:
        k = draw(st.integers(0, 9))
        if k <= 5:
            return ["term", draw(st.sampled_from(terms))]
        if k <= 7:
            return ["rule", draw(st.sampled_from(rules))]
        return ["str", "".join(draw(st.lists(st.sampled_from(chars), min_size=1, max_size=2))), draw(st.integers(0, 4)) == 0]
    k = draw(st.sampled_from(["seq", "seq", "seq", "alt", "alt", "opt", "maybe", "star", "plus", "rep"]))
    if k in ("seq", "alt"):
        return [k, [draw(expr(rules, terms, chars, depth - 1)) for _ in range(draw(st.integers(2, 3)))]]
    if k == "rep":
        m = draw(st.integers(1, 2))
        return ["rep", draw(expr(rules, terms, chars, depth - 1)), m, m + draw(st.integers(0, 1))]
    return [k, draw(expr(rules, terms, chars, depth - 1))]


@st.composite
def strategy(draw, tier="quick"):
    k = draw(st.integers(2, 3))
    chars = draw(st.lists(st.sampled_from(SHARING if draw(st.integers(0, 5)) == 0 else POOL), min_size=k, max_size=k, unique=True))
    nt = draw(st.integers(1, 3))
    # terminal names, incl. families that look like names a converter might generate from another
    # terminal's name and a state number ("the names of terminals and nonterminals never collide")
    tnames = draw(st.sampled_from([["TA", "TB", "TC"]] * 3 + [["T", "T_0", "T_1"], ["N", "N_1", "N_2"], ["A", "A_0", "AA"], ["X0", "X_0", "X1"], ["T1", "T_1", "T__1"]]))[:nt]
    terms = []
    for i, n in enumerate(tnames):
        if terms and draw(st.integers(0, 6)) == 0:
            terms.append([n, draw(st.sampled_from([t[1] for t in terms]))])  # two terminals with the same pattern
        else:
            terms.append([n, draw(tdef(chars, tnames[:i]))])
    ignore = []
    charset = list(chars)
    if draw(st.integers(0, 9)) < 4:
        charset.append(" ")
        wsdef = draw(st.sampled_from([["str", " ", False], ["re", ["rep", ["lit", " "], 1, None]], ["re", ["cls", [["ch", " "], ["ch", chars[0]]], False]]]))
        if draw(st.integers(0, 5)) == 0:
            # an ordinary terminal with exactly the ignored terminal's pattern (defined before it)
            terms.append(["SP", wsdef])
            tnames = tnames + ["SP"]
        terms.append(["WS", wsdef])
        ignore.append("WS")
        if draw(st.integers(0, 3)) == 0:
            terms.append(["CM", ["str", chars[-1] + " ", False]])
            ignore.append("CM")
    nr = draw(st.integers(1, 3))
    rnames = ["start", "ra", "rb"][:nr]
    usable = tnames + (["WS"] if ignore and draw(st.integers(0, 4)) == 0 else [])
    rules = [[n, draw(expr(rnames, usable, chars, 2))] for n in rnames]
    g = {"rules": rules, "terms": terms, "ignore": ignore}
    samples = []
    for _ in range(4):
        s = draw(sample(g, ["rule", "start"], 5))
        if s is not None and len(s) <= 8:
            samples.append(s)
    return {"g": g, "charset": charset, "recursion": draw(st.sampled_from(["right", "left"])), "samples": samples, "mut": draw(st.integers(0, 255))}


@st.composite
def sample(draw, g, e, fuel):
    "a text derived from expression e (None when fuel runs out)"
    rules = dict(g["rules"])
    terms = dict(g["terms"])
    k = e[0]
    if fuel < 0:
        return None
    pre = ""
    if k in ("term", "str") and g["ignore"] and not (k == "term" and e[1] in g["ignore"]) and draw(st.integers(0, 3)) == 0:
        pre = draw(sample_t(terms, ["ref", draw(st.sampled_from(g["ignore"]))]))
        if pre is None:
            return None
    if k == "term":
        s = draw(sample_t(terms, ["ref", e[1]]))
        return None if s is None else pre + s
    if k == "str":
        return pre + e[1]
    if k == "rule":
        return draw(sample(g, rules[e[1]], fuel - 1))
    if k == "seq":
        parts = [draw(sample(g, x, fuel - 1)) for x in e[1]]
        return None if any(p is None for p in parts) else "".join(parts)
    if k == "alt":
        return draw(sample(g, draw(st.sampled_from(e[1])), fuel - 1))
    if k in ("opt", "maybe"):
        return draw(sample(g, e[1], fuel - 1)) if draw(st.booleans()) else ""
    m, mx = {"star": (0, 2), "plus": (1, 2)}.get(k, (e[2] if k == "rep" else 0, e[3] if k == "rep" else 0))
    t = draw(st.integers(m, mx))
    parts = [draw(sample(g, e[1], fuel - 1)) for _ in range(t)]
    return None if any(p is None for p in parts) else "".join(parts)


@st.composite
def sample_t(draw, terms, t):
    k = t[0]
    if k == "str":
        return t[1]
    if k == "ref":
        return draw(sample_t(terms, terms[t[1]]))
    if k == "seq":
        parts = [draw(sample_t(terms, x)) for x in t[1]]
        return None if any(p is None for p in parts) else "".join(parts)
    if k == "alt":
        return draw(sample_t(terms, draw(st.sampled_from(t[1]))))
    if k == "re":
        from vf.props.c18 import sample as rsample

        chars = sorted(regexref.chars_of(t[1]) | {"a"})
        return draw(rsample(t[1], set(chars)))
    raise ValueError(k)


# ---- candidates -----------------------------------------------------------------------------


def text_candidates(case):
    cs = case["charset"]
    out = ["".join(x) for x in gen.all_strings(cs, 3 if len(cs) <= 3 else 2)]
    for s in case.get("samples", []):
        out.append(s)
        for i in range(len(s)):
            out.append(s[:i] + s[i + 1 :])
            out.append(s[:i] + cs[(i + len(s)) % len(cs)] + s[i + 1 :])
            out.append(s[:i] + cs[(i + 1) % len(cs)] + s[i:])
            if i + 1 < len(s):
                out.append(s[:i] + s[i + 1] + s[i] + s[i + 2 :])
    allowed = set(cs)
    return list(dict.fromkeys(x for x in out if set(x) <= allowed and len(x) <= 8))


def byte_candidates(texts, mut):
    out = []
    for t in texts:
        b = t.encode("utf-8")
        out.append(b)
        if any(x >= 0x80 for x in b):
            for i in range(1, len(b)):
                out.append(b[:i])
            for i in range(len(b)):
                if b[i] >= 0x80:
                    out.append(b[:i] + bytes([0x80 | ((b[i] + mut) & 0x3F)]) + b[i + 1 :])
    return list(dict.fromkeys(out))


def check(case, ctx):
    import lark

    from genlm.grammar.lark_interface import LarkStuff

    g = case["g"]
    text = larkref.to_lark(g)
    charset = set(case["charset"])
    ref = larkref.Matcher(g)
    ctx.cls("ignore" if g["ignore"] else None, "recursion:" + case["recursion"], "terms:%d" % len(g["terms"]), "rules:%d" % len(g["rules"]))
    try:
        with warnings.catch_warnings():
            warnings.simplefilter("ignore")
            ls = LarkStuff(text)
    except lark.exceptions.LarkError as e:
        ctx.cls("discarded:lark_rejects:" + type(e).__name__)
        return
    cands = text_candidates(case)
    want = {t: ref.accepts(t) for t in cands}
    ctx.nontrivial = 0 < sum(want.values()) < len(cands)

    with warnings.catch_warnings():
        warnings.simplefilter("ignore")
        cc = ctx.call("char_cfg", ls.char_cfg, charset=set(charset), recursion=case["recursion"])
        bc = ctx.call("byte_cfg", ls.byte_cfg, charset=set(charset), recursion=case["recursion"])

    if not isinstance(cc, LibRaised):
        ctx.check("char_cfg|N_V", not (set(cc.N) & set(cc.V)), lambda: f"char_cfg: symbols {set(cc.N) & set(cc.V)} are both terminal and nonterminal")
        for t in cands:
            w = ctx.call("char_cfg.call", cc, t)
            if isinstance(w, LibRaised):
                break
            ctx.evals += 1
            if (w > 0) != want[t]:
                key = "char_cfg|extra" if w > 0 else "char_cfg|missing"
                ctx.fail(key, f"grammar:\n{text}charset {sorted(charset)!r} recursion {case['recursion']}: char_cfg gives {t!r} weight {w}, reference says accepted={want[t]}")
                break

    if not isinstance(bc, LibRaised):
        ctx.check("byte_cfg|N_V", not (set(bc.N) & set(bc.V)), lambda: f"byte_cfg: symbols {set(bc.N) & set(bc.V)} are both terminal and nonterminal")
        bad = [x for x in bc.N if isinstance(x, int) and not isinstance(x, bool) and 0 <= x <= 255]
        ctx.check("byte_cfg|int_nonterminal", not bad, lambda: f"byte_cfg: nonterminals {bad} look like byte values")
        for b in byte_candidates(cands, case.get("mut", 0)):
            try:
                dec = b.decode("utf-8")
                exp = want[dec] if dec in want else ref.accepts(dec)
                if not set(dec) <= charset:
                    continue
            except UnicodeDecodeError:
                exp = False
            w = ctx.call("byte_cfg.call", bc, tuple(b))
            if isinstance(w, LibRaised):
                break
            ctx.evals += 1
            if (w > 0) != exp:
                key = "byte_cfg|extra" if w > 0 else "byte_cfg|missing"
                ctx.fail(key, f"grammar:\n{text}charset {sorted(charset)!r} recursion {case['recursion']}: byte_cfg gives {b!r} weight {w}, reference says accepted={exp}")
                break
