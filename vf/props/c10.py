"""
C10  Transducer composition counts every matching path pair exactly once.

Oracle: sum_y f(x,y) g(y,z) computed as the total weight of the Hadamard product of the two
epsilon-free cross-sections (vf.autoref.compose_ref) -- paths of a product of epsilon-free automata
are in bijection with pairs of matching paths.  The composed machine built by the library is read
back as data and evaluated by the reference `rel`, so the evaluator cannot mask the construction.
"""

from hypothesis import strategies as st

from vf import autoref, gen
from vf.autoref import RA, RT
from vf.build import lib_fst, lib_wfsa
from vf.core import LibRaised
from vf.semi import model

ID = "C10"
RULE = (
    "case = (two transducers over {a,b}: <=3 states, <=6 arcs each, output-epsilon / input-epsilon / "
    "eps:eps arcs, cycles, several initial and final states, gapped state names, either size ordering; regime QQ, REAL, FLOAT or "
    "BOOL (a third of the REAL/FLOAT machines re-weighted by a potential: arcs 1e-14..1e14, path weights unchanged); 8 drawn string pairs of length <=2 plus all pairs of length <=1); (f@g) read as data and "
    "reference-evaluated vs the relational composition; f(x,y), f(x,None)(y), f(None,y)(x), f.T(y,x), "
    "project(0/1), from_string, diag, from_pairs vs the reference relation; non-trivial = f has an "
    "output-epsilon arc, g an input-epsilon arc and some composed value is non-zero; distinct = SHA-1 of the case"
)
ASSUMPTIONS = [
    "per-state outgoing weight <= 3/4, so all sums over intermediate strings and epsilon cycles converge",
    "QQ and BOOL exact, REAL rtol 1e-8",
]


def examples(tier):
    return 960 if tier == "quick" else 10000


SIG = ["a", "b"]


@st.composite
def strategy(draw, tier="quick"):
    regime = draw(st.sampled_from(["QQ", "QQ", "QQ", "REAL", "FLOAT", "BOOL"]))
    acyc = draw(st.integers(0, 3)) == 0
    f = draw(gen.transducer(regime=regime, acyclic=acyc, max_states=draw(st.sampled_from([1, 2, 3])), dynrange=True))
    g = draw(gen.transducer(regime=regime, acyclic=acyc, max_states=draw(st.sampled_from([1, 2, 3])), dynrange=True))
    s = st.lists(st.sampled_from(SIG), max_size=2)
    pairs = draw(st.lists(st.tuples(s, s).map(list), min_size=8, max_size=8))
    fp = draw(st.lists(st.tuples(st.lists(st.sampled_from(SIG), max_size=3), st.lists(st.sampled_from(SIG), max_size=3)).map(list), max_size=3))
    return {"f": f, "g": g, "pairs": pairs, "from_pairs": fp, "order": draw(st.sampled_from(["compose_first", "eval_first"]))}


def check(case, ctx):
    from genlm.grammar import FST

    cf, cg = case["f"], case["g"]
    M = model(cf["regime"])
    f, g = RT.from_case(M, cf), RT.from_case(M, cg)
    clf, clg = gen.classify_automaton(cf), gen.classify_automaton(cg)
    ctx.cls("regime:" + cf["regime"], *("f:" + c for c in clf), *("g:" + c for c in clg), "f<g" if len(cf["states"]) < len(cg["states"]) else "f>=g")
    F = ctx.call("build", lib_fst, M, cf)
    G = ctx.call("build", lib_fst, M, cg)
    if isinstance(F, LibRaised) or isinstance(G, LibRaised):
        return

    short = gen.all_strings(SIG, 1)
    pairs = [(x, z) for x in short for z in short] + [(tuple(x), tuple(z)) for x, z in case["pairs"]]
    pairs = list(dict.fromkeys(pairs))

    state = {"nz": False}

    def compose(F_, G_, f_, g_, key, prs):
        C = ctx.call(key, lambda: F_ @ G_)
        if isinstance(C, LibRaised):
            return
        CT = ctx.call(key + ".read", RT.from_lib, M, C)
        for x, z in prs:
            want = autoref.compose_ref(f_, g_, x, z)
            state["nz"] = state["nz"] or not M.is_zero(want)
            if not isinstance(CT, LibRaised):
                ctx.evals += 1
                have = autoref.rel(CT, x, z)
                if not M.eq(have, want):
                    ctx.fail(key + "|neq", f"({key}) read as data: ({x},{z}) has weight {M.show(have)}, sum_y f(x,y) g(y,z) = {M.show(want)}")
                    CT = LibRaised(None)
        for x, z in prs[:6]:
            have = ctx.call(key + ".call", C, x, z)
            ctx.eq(key + ".call", M, have, autoref.compose_ref(f_, g_, x, z), what=f"({x},{z})")

    def evaluate():
        # ---- evaluation, cross-sections, transpose, projections of f
        FT = ctx.call("T", lambda: F.T)
        for x, y in pairs[:10]:
            want = autoref.rel(f, x, y)
            ctx.eq("call", M, ctx.call("call", F, x, y), want, what=f"f({x},{y})")
            xs = ctx.call("xsection_in", F, x, None)
            if not isinstance(xs, LibRaised):
                ctx.eq("xsection_in", M, ctx.call("xsection_in.call", xs, y), want, what=f"f({x},None)({y})")
            ys = ctx.call("xsection_out", F, None, y)
            if not isinstance(ys, LibRaised):
                ctx.eq("xsection_out", M, ctx.call("xsection_out.call", ys, x), want, what=f"f(None,{y})({x})")
            if not isinstance(FT, LibRaised):
                ctx.eq("T", M, ctx.call("T.call", FT, y, x), want, what=f"f.T({y},{x})")
        for axis in (0, 1):
            P = ctx.call(f"project{axis}", F.project, axis)
            if isinstance(P, LibRaised):
                continue
            proj = RA(M, f.n, f.start, f.stop, [(q, (a if axis == 0 else b), r, w) for q, a, b, r, w in f.arcs])
            W = autoref.Weights(proj)
            for x in gen.all_strings(SIG, 2):
                ctx.eq(f"project{axis}", M, ctx.call(f"project{axis}.call", P, x), W(x), what=f"x={x}")


    # the same two objects serve every query, in a drawn order: an object that was evaluated (or used
    # as the left operand) before must behave the same as the right operand afterwards
    if case.get("order") == "eval_first":
        ctx.cls("order:eval_first")
        evaluate()
        compose(F, G, f, g, "matmul", pairs)
    else:
        compose(F, G, f, g, "matmul", pairs)
        evaluate()
    compose(G, F, g, f, "matmul_rev", pairs[:6])
    ctx.nontrivial = state["nz"] and "eps_output" in clf and "eps_input" in clg

    # ---- constructors
    extended = False
    for x in [(), ("a",), ("a", "b"), "extend", ("a", "b")]:
        if x == "extend":
            x, extended = ("a", "b"), True
        t = ctx.call("from_string", FST.from_string, x, M.lib)
        if isinstance(t, LibRaised):
            continue
        if extended:
            extended = False
            # what a constructor returns belongs to the caller: extending it must not change what the
            # next from_string / the next evaluation on the same string sees (second round of the loop)
            qs = sorted(t.states, key=repr)
            ctx.call("from_string.extend", t.add_arc, qs[-1], ("b", "b"), qs[-1], M.lib.one)
            ctx.call("from_string.extend", t.add_F, qs[0], M.lib.one)
            want_ab = autoref.rel(f, x, x)
            ctx.eq("call_after_extend", M, ctx.call("call_after_extend", F, x, x), want_ab, what=f"f({x},{x}) after a caller extended its own from_string({x})")
            continue
        tt = ctx.call("from_string.read", RT.from_lib, M, t)
        if isinstance(tt, LibRaised):
            continue
        for u in gen.all_strings(SIG, 2):
            for v in [u, u[:-1], u + ("a",)]:
                ctx.evals += 1
                have = autoref.rel(tt, u, v)
                want = M.one if (u == x and v == x) else M.zero
                if not M.eq(have, want):
                    ctx.fail("from_string|neq", f"FST.from_string({x}) relates ({u},{v}) with weight {M.show(have)}")
    A = ctx.call("build", lib_wfsa, M, {**case["f"], "arcs": [[q, a, r, w] for q, a, b, r, w in cf["arcs"]]}, "base")
    if not isinstance(A, LibRaised):
        d = ctx.call("diag", FST.diag, A)
        if not isinstance(d, LibRaised):
            dt = ctx.call("diag.read", RT.from_lib, M, d)
            W = autoref.Weights(RA(M, f.n, f.start, f.stop, [(q, a, r, w) for q, a, b, r, w in f.arcs]))
            if not isinstance(dt, LibRaised):
                for u in gen.all_strings(SIG, 2):
                    for v in [u, u[::-1], u[:-1]]:
                        ctx.evals += 1
                        have = autoref.rel(dt, u, v)
                        want = W(u) if u == v else M.zero
                        if not M.eq(have, want):
                            ctx.fail("diag|neq", f"FST.diag(A) relates ({u},{v}) with weight {M.show(have)}, A({u}) = {M.show(W(u))}")
    fp = [(tuple(x), tuple(y)) for x, y in case["from_pairs"]]
    p = ctx.call("from_pairs", FST.from_pairs, fp, M.lib)
    if not isinstance(p, LibRaised):
        ctx.cls("from_pairs")
        cand = list(dict.fromkeys(fp + [(y, x) for x, y in fp] + [((), ()), (("a",), ("a",))]))
        for x, y in cand:
            n = sum(1 for pr in fp if pr == (x, y))
            want = M.sum([M.one] * n)
            ctx.eq("from_pairs", M, ctx.call("from_pairs.call", p, x, y), want, what=f"from_pairs({fp})({x},{y})")
