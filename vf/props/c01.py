"""
C01  Next-token mask is exactly the set of viable continuations.

Oracle: viable(c) decided by the Bar-Hillel product of (grammar + EOS) with the deterministic
automaton of c.V* in the Boolean model (vf.cfgref.prefix); no library code, no normal form.
Both directions: nothing missing, nothing extra; every returned weight equals 1.
"""

from hypothesis import strategies as st

from vf import gen
from vf.build import lib_cfg
from vf.cfgref import RG, prefix
from vf.core import LibRaised
from vf.semi import model

ID = "C01"
EOS = "▪"
RULE = (
    "case = (grammar of any shape incl. empty language / unproductive start / nullable and unary "
    "cycles, weights Boolean or positive floats mapped through x>0, back-end earley|cky, rule "
    "rotation, renaming); all contexts over V up to the length bound plus contexts containing EOS; "
    "set(p_next(c)) is compared with {t : c+t can be completed to a string of L.EOS}, once shortest-first "
    "and a second time longest-first on the same object; non-trivial = "
    "some context has a mask that is neither empty nor all of V+EOS; distinct = SHA-1 of the case"
)
ASSUMPTIONS = [
    "reference viability: vf.cfgref.prefix in the Boolean model (exact)",
    "contexts are over V u {EOS} (out-of-vocabulary contexts are rejected by a documented assertion and are not generated)",
]


def examples(tier):
    return 4000 if tier == "quick" else 32000


@st.composite
def strategy(draw, tier="quick"):
    boost = draw(st.sampled_from([True, True, False]))
    g = draw(gen.grammar(regimes=["BOOL", "BOOL", "FLOAT"], boost=boost, max_terms=4, symbols=True, tiny=True, **gen.size(tier)))
    return {
        "g": g,
        "alg": draw(st.sampled_from(["earley", "cky"])),
        "perm": draw(st.sampled_from([0, 1, "rev"])),
        "rename": draw(st.sampled_from(["id", "id", "tuple", "int"])),
        "n": (2 if len(g["V"]) == 4 else 3) if tier == "quick" else draw(st.sampled_from([3, 4] if len(g["V"]) <= 2 else [3] if len(g["V"]) == 3 else [2, 3])),
        "eos_ctx": draw(st.integers(0, 3)),
    }


def check(case, ctx):
    from genlm.grammar import BoolCFGLM

    g = case["g"]
    M = model(g["regime"])
    B = model("BOOL")
    # Boolean skeleton + EOS, as data
    from vf.cfgref import sym

    V = [sym(v) for v in g["V"]]
    VE = V + [EOS]
    rules = [(True, "$S", (g["S"], EOS))] + [(True, h, tuple(sym(y) for y in b)) for w, h, b in g["rules"]]
    GE = RG(B, "$S", VE, rules)
    ctx.cls(*gen.classify(g), "regime:" + g["regime"], "alg:" + case["alg"])

    cfg = ctx.call("build", lib_cfg, M, g, case.get("perm"), case.get("rename"))
    lm = ctx.call(f"BoolCFGLM[{case['alg']}]", BoolCFGLM, cfg, alg=case["alg"])
    if isinstance(lm, LibRaised):
        return

    contexts = gen.all_strings(V, case.get("n", 3))
    k = case.get("eos_ctx", 0)
    if k:
        base = contexts[: 1 + len(V) + len(V) ** 2]
        extra = [c[:i] + (EOS,) + c[i:] for c in base for i in range(len(c) + 1)]
        contexts = contexts + extra[k - 1 :: 3]

    memo = {}

    def viable(c):
        if c not in memo:
            memo[c] = prefix(GE, c)
        return memo[c]

    # second pass in the opposite order on the same object: the mask of a context must not depend
    # on the longer (possibly dead) contexts that were queried in between
    for c in contexts + contexts[::-1]:
        want = {t for t in VE if viable(c + (t,))}
        if 0 < len(want) < len(VE):
            ctx.nontrivial = True
        p = ctx.call(f"p_next[{case['alg']}]", lm.p_next, c)
        if isinstance(p, LibRaised):
            continue
        have = set(p.keys())
        key = f"mask[{case['alg']}]"
        ctx.check(key + "|missing", want <= have, lambda: f"context {c}: viable tokens {sorted(want - have)} not offered")
        ctx.check(key + "|extra", have <= want, lambda: f"context {c}: offered {sorted(have - want)} which cannot be completed")
        ctx.check(key + "|weights", all(v == 1 for v in p.values()), lambda: f"context {c}: weights {dict(p)} are not all 1")
