"""
C03  Prefix weight equals the total weight of all strings with that prefix.

Oracle: vf.cfgref.prefix -- Bar-Hillel product of the grammar with the *deterministic* automaton of
p.V* followed by the least fixed point of the product's equations; determinism gives "each string
exactly once" by construction.  On finite languages (FREE / QQ) the comparison is exact, so one
path too many in the prefix transducer doubles a monomial.
"""

from hypothesis import strategies as st

from vf import cfgref, gen
from vf.build import lib_cfg
from vf.cfgref import RG, Inside, prefix
from vf.core import LibRaised
from vf.semi import model

ID = "C03"
RULE = (
    "case = (grammar: convergent FLOAT/REAL of any shape, BOOL/MT of any shape, or non-recursive "
    "FREE/QQ; rule rotation); all prefixes p up to length 3 (incl. the empty one and prefixes of no "
    "string): prefix_weight(p), prefix_grammar read as data and evaluated by the reference at p, "
    "derivatives(p)[-1].treesum(), derivative(a) read as data and evaluated at every |y|<=2, and "
    "the identity pw(p) = w(p) + sum_a pw(p a); non-trivial = the total weight is non-zero and some "
    "prefix weight differs from it; distinct = SHA-1 of the case"
)
ASSUMPTIONS = [
    "reference: vf.cfgref.prefix / Inside (self-tested against closed forms and brute force)",
    "FLOAT-like: convergent by construction, rtol 1e-8; FREE/QQ: finite languages, exact",
]
REGIMES = ["FLOAT", "FLOAT", "FLOAT", "REAL", "BOOL", "MT", "QQ", "FREE", "FREE"]


def examples(tier):
    return 960 if tier == "quick" else 10000


@st.composite
def strategy(draw, tier="quick"):
    regime = draw(st.sampled_from(REGIMES))
    shape = "nonrecursive" if regime in ("QQ", "FREE") else None
    g = draw(gen.grammar(regimes=[regime], shape=shape, max_terms=2, symbols=True))
    return {"g": g, "perm": draw(st.sampled_from([0, 1, "rev"])), "n": 3 if tier == "quick" else draw(st.sampled_from([3, 4]))}


def check(case, ctx):
    g = case["g"]
    M = model(g["regime"])
    G = RG.from_case(M, g)
    ref = Inside(G)
    ctx.cls(*gen.classify(g), "regime:" + g["regime"])
    cfg = ctx.call("build", lib_cfg, M, g, case.get("perm"))
    n = case.get("n", 3)
    V = [cfgref.sym(v) for v in g["V"]]
    prefixes = gen.all_strings(V, n)
    want = {p: prefix(G, p) for p in prefixes}
    Z = want[()]
    ctx.nontrivial = not M.is_zero(Z) and any(not M.eq(w, Z) for w in want.values())

    pg = ctx.call("prefix_grammar", lambda: cfg.prefix_grammar)
    refPG = None
    if not isinstance(pg, LibRaised):
        refPG = Inside(RG.from_lib(M, pg))
    have_pw = {}
    for p in prefixes:
        have = ctx.call("prefix_weight", cfg.prefix_weight, p)
        if ctx.eq("prefix_weight", M, have, want[p], what=f"p={p}"):
            have_pw[p] = M.from_lib(have)
        if refPG is not None:
            ctx.evals += 1
            v = refPG(p)
            if not M.eq(v, want[p]):
                ctx.fail("prefix_grammar|neq", f"prefix_grammar (reference-evaluated) at p={p}: {M.show(v)} want {M.show(want[p])}")
                refPG = None

    # derivative route
    for p in prefixes:
        if len(p) > 2 and M.name not in ("FREE", "QQ"):
            continue
        D = ctx.call("derivatives", cfg.derivatives, p)
        if isinstance(D, LibRaised):
            break
        ts = ctx.call("derivatives.treesum", D[-1].treesum)
        if not ctx.eq("derivatives.treesum", M, ts, want[p], what=f"p={p}"):
            break
    for a in V:
        d = ctx.call("derivative", cfg.derivative, a)
        if isinstance(d, LibRaised):
            continue
        refD = Inside(RG.from_lib(M, d))
        for y in gen.all_strings(V, 2):
            ctx.evals += 1
            v = refD(y)
            w = ref((a,) + y)
            if not M.eq(v, w):
                ctx.fail("derivative|neq", f"derivative({a!r}) at y={y}: {M.show(v)}, grammar at {(a,) + y}: {M.show(w)}")
                break

    # the derivative of a (trimmed) derivative: G/a, trimmed, then /b, must give y the weight of a b y
    for a in V[:2]:
        d1 = ctx.call("derivative", cfg.derivative, a)
        if isinstance(d1, LibRaised):
            continue
        d1t = ctx.call("derivative.trim", d1.trim)
        if isinstance(d1t, LibRaised):
            continue
        for b in V[:2]:
            d2 = ctx.call("derivative2", d1t.derivative, b)
            if isinstance(d2, LibRaised):
                continue
            refD2 = Inside(RG.from_lib(M, d2))
            for y in gen.all_strings(V, 1):
                ctx.evals += 1
                v, w = refD2(y), ref((a, b) + y)
                if not M.eq(v, w):
                    ctx.fail("derivative2|neq", f"derivative({a!r}).trim().derivative({b!r}) at y={y}: {M.show(v)}, grammar at {(a, b) + y}: {M.show(w)}")
                    break

    # pw(p) = w(p) + sum_a pw(p a) on the library's own values
    for p in prefixes:
        if len(p) >= n or p not in have_pw or any(p + (a,) not in have_pw for a in V):
            continue
        wp = ctx.call("cfg()", cfg, p)
        if isinstance(wp, LibRaised):
            break
        rhs = M.sum([M.from_lib(wp)] + [have_pw[p + (a,)] for a in V])
        ctx.check("prefix_identity", M.eq(have_pw[p], rhs), lambda: f"pw({p}) = {M.show(have_pw[p])} but w(p) + sum_a pw(p a) = {M.show(rhs)}")
