"""
C05  Incremental parsing is history-independent; queries are pure.

Stateful (Hypothesis RuleBasedStateMachine).  One machine = one grammar + one parser / language
model object.  Rules issue queries whose contexts are extensions, siblings or prefixes of earlier
contexts, fresh strings, repeats, cache clears, transformations of the underlying grammar object,
and cold long contexts.  Model = answer of a *fresh* object (built from a fresh grammar object) per
distinct query; invariant after every step: the used object's answer equals the model answer, and
the (rules, V, S, N) snapshot of the grammar object is unchanged.

The history is recorded as plain JSON while the machine runs; `check(case)` re-executes such a
history without Hypothesis (replay, minimisation).
"""

import math
import sys

from hypothesis import strategies as st

from vf import gen, sched, xform
from vf.build import lib_cfg, snapshot
from vf.core import Ctx, LibRaised
from vf.semi import model

ID = "C05"
STATEFUL = True
EOS = "▪"
RULE = (
    "case = history: (grammar BOOL or FLOAT, object kind in Earley / rescaled Earley / IncrementalCKY / "
    "EarleyLM / rescaled EarleyLM / CKYLM / BoolCFGLM[earley|cky]) + up to 20 (30 thorough) operations "
    "p_next (with a fresh tuple, or with the caller's own list edited in place) / call / chart / clear_cache / the parser underneath a language model / grammar transformation / cold long context (520-700 tokens) / one sweep over all contexts of length <= 2 in a drawn order, "
    "contexts drawn as extension, sibling or prefix of earlier contexts, repeats or fresh strings; after "
    "every step the answer is compared with a fresh object's answer and the grammar snapshot with the "
    "initial one; non-trivial = the history contains a sibling extension after a longer query, a "
    "re-query after clear_cache, or a cold long context; distinct = SHA-1 of the history"
)
ASSUMPTIONS = [
    "model answers come from fresh library objects (the oracle is the library itself on a fresh object, which is exactly what the property states); correctness of the answers is C01-C04",
    "the model answer for a long context is produced by a fresh object warmed incrementally (200 tokens per step)",
    "FLOAT answers are compared with rtol 1e-6 + atol 1e-11 (same algorithm, but generated nonterminal names and hence set orders differ between the two grammar objects, and the library's fixed points stop at an absolute 1e-12), Boolean answers exactly",
    "contexts are over V u {EOS}; CPython's default recursion limit (1000) is in force",
]
PROTECT = ("init",)

KINDS_FLOAT = ["Earley", "EarleyR", "CKY", "EarleyLM", "EarleyLM_R", "CKYLM", "BoolLM_e", "BoolLM_c"]
KINDS_BOOL = ["Earley", "CKY", "BoolLM_e", "BoolLM_c"]
PURE_OPS = ["prefix_grammar", "cnf", "derivative", "prefix_weight", "call", "matmul", "agenda", "truncate"] + xform.SINGLE


def examples(tier):
    return 8000 if tier == "quick" else 16000  # thorough: longer histories, cold long contexts for the CKY kinds too


def steps(tier):
    return 20 if tier == "quick" else 30


@st.composite
def init_strategy(draw, tier="quick"):
    regime = draw(st.sampled_from(["FLOAT", "FLOAT", "BOOL"]))
    raw = draw(gen.raw_grammar(max_nt=4, max_rules=7, max_terms=3, corner_rate=0.5))
    loopy = draw(st.integers(0, 9)) < 4
    if loopy:
        # grammars for long contexts: a non-recursive core plus the left-recursive loop
        # S -> S t | eps, so that every context is viable and Earley stays (near) linear
        raw = gen.repair(raw, "nonrecursive")
        for t in raw["V"]:
            raw["rules"].append(["S", ["S", t]])
        raw["rules"].append(["S", []])
    raw["rules"] = draw(gen.weights(raw, regime))
    raw["regime"] = regime
    # terminals need not be strings: integer alphabets, also distinct integers with equal hashes
    raw = gen.resymbol(raw, draw(st.sampled_from(["str"] * 6 + ["int0", "intsparse", "hashcollide", "hashcollide"])))
    kind = draw(st.sampled_from(KINDS_FLOAT if regime == "FLOAT" else KINDS_BOOL))
    # a cold 520-token context costs minutes on the cubic CKY parser: thorough tier only, one history in 400
    cky_long = tier == "thorough" and draw(st.integers(0, 399)) == 0
    return {"g": raw, "kind": kind, "loopy": loopy, "salt": draw(st.one_of(st.none(), st.integers(0, 2**32 - 1))), "cky_long": cky_long}


# ---------------------------------------------------------------------------------------------


def make(kind, cfg):
    from genlm.grammar import BoolCFGLM
    from genlm.grammar.parse import cky, earley, earley_rescaled

    if kind == "Earley":
        return earley.Earley(cfg)
    if kind == "EarleyR":
        return earley_rescaled.Earley(cfg)
    if kind == "CKY":
        return cky.IncrementalCKY(cfg.cnf)
    if kind == "EarleyLM":
        return earley.EarleyLM(cfg)
    if kind == "EarleyLM_R":
        return earley_rescaled.EarleyLM(cfg)
    if kind == "CKYLM":
        return cky.CKYLM(cfg)
    if kind == "BoolLM_e":
        return BoolCFGLM(cfg, alg="earley")
    if kind == "BoolLM_c":
        return BoolCFGLM(cfg, alg="cky")
    raise ValueError(kind)


IS_LM = {"EarleyLM", "EarleyLM_R", "CKYLM", "BoolLM_e", "BoolLM_c"}


def query(kind, obj, op, buf=None):
    "perform a query op on an object; returns a comparable plain value"
    name = op[0]
    if name == "clear":
        obj.clear_cache()
        return None
    c = tuple(op[1])
    if name == "p_next_buf":
        # the caller's own mutable list, edited in place between queries when the length allows
        arg = c if (buf is None or kind in ("CKY", "CKYLM", "BoolLM_c")) else buf  # the CKY parser keys its cache by the context itself (tuples only)
        if kind in ("Earley", "EarleyR"):
            return plain(obj.next_token_weights(obj.chart(arg)))
        return plain(obj.p_next(arg))
    if name == "model_call":
        # the parser underneath a language model: weight of the context as a complete string
        m = obj.model.model if kind == "BoolLM_c" else obj.model
        return plain(m(c))
    if name == "model_logp":
        return plain(obj.model.logp(c))
    if name in ("p_next", "long"):
        if kind in ("Earley", "EarleyR"):
            return plain(obj.next_token_weights(obj.chart(c)))
        if kind == "CKY":
            return plain(obj.p_next(c))
        return plain(obj.p_next(c))
    if name == "call":
        if kind in IS_LM:
            return plain(obj(c + (EOS,)))
        return plain(obj(c))
    if name == "chart":
        m = obj if kind in ("Earley", "EarleyR", "CKY") else obj.model
        if kind == "CKYLM":
            m = obj.model
        if kind == "BoolLM_c":
            m = obj.model.model
        m.chart(c)
        return None
    raise ValueError(name)


def plain(v):
    if isinstance(v, dict):
        return {repr(k): plain(x) for k, x in v.items() if not _zero(x)}
    if hasattr(v, "score"):
        return v.score
    return v


def _zero(x):
    x = plain(x)
    return x == 0 or x is False


def same(a, b):
    if isinstance(a, dict) and isinstance(b, dict):
        return a.keys() == b.keys() and all(same(a[k], b[k]) for k in a)
    if isinstance(a, float) or isinstance(b, float):
        if isinstance(a, (int, float)) and isinstance(b, (int, float)):
            if math.isnan(a) or math.isnan(b):
                return False
            if a == b:  # also +-inf
                return True
            # The used and the fresh object run the same algorithm, but on grammar objects whose
            # generated nonterminal names differ (a global counter), hence in a different set order;
            # the library's fixed points stop at an absolute 1e-12, so values agree to ~1e-12 absolute
            return abs(a - b) <= 1e-6 * max(abs(a), abs(b)) + 1e-11
        return False
    return a == b


class default_stack:
    """Hypothesis raises the interpreter's recursion limit while a test runs.  A user calls the
    library from a shallow stack under CPython's default limit of 1000, so calls on the *used*
    object are made with that much head-room (950 frames) and no more."""

    def __enter__(self):
        self.old = sys.getrecursionlimit()
        d, f = 0, sys._getframe()
        while f is not None:
            d, f = d + 1, f.f_back
        sys.setrecursionlimit(d + 950)

    def __exit__(self, *a):
        sys.setrecursionlimit(self.old)
        return False


def guarded_query(kind, obj, op, buf=None):
    with default_stack():
        return query(kind, obj, op, buf)


class Sim:
    "interpreter of a history against the real library (used by the machine and by replay)"

    def __init__(self, init, ctx):
        self.init = init
        self.ctx = ctx
        self.kind = init["kind"]
        self.M = model(init["g"]["regime"])
        self.cfg = ctx.call("build", lib_cfg, self.M, init["g"])
        self.snap0 = snapshot(self.cfg) if not isinstance(self.cfg, LibRaised) else None
        sched.install(init.get("salt"))
        self.obj = ctx.call(f"init[{self.kind}]", make, self.kind, self.cfg) if self.snap0 is not None else LibRaised(None)
        self.dead = isinstance(self.obj, LibRaised)
        self.memo = {}
        self.buf = []
        self.maxlen_seen = 0
        self.cleared = False
        self.seen = set()
        ctx.cls("kind:" + self.kind, "regime:" + init["g"]["regime"], "loopy" if init.get("loopy") else None)
        ctx.cls(*("g:" + c for c in gen.classify(init["g"])))

    def fresh_answer(self, op):
        key = repr(op)
        if key not in self.memo:
            cfg = lib_cfg(self.M, self.init["g"])
            obj = make(self.kind, cfg)
            if op[0] == "long":
                c = tuple(op[1])
                m = obj if self.kind in ("Earley", "EarleyR", "CKY") else obj.model
                if self.kind == "BoolLM_c":
                    m = obj.model.model
                for k in range(0, len(c) + 1, 200):
                    m.chart(c[:k])
            self.memo[key] = query(self.kind, obj, op)
        return self.memo[key]

    def apply(self, op):
        ctx = self.ctx
        if self.dead:
            return
        name = op[0]
        if name == "pure":
            self._pure(op)
        else:
            buf = None
            if name == "p_next_buf":
                new = list(tuple(op[1]))
                if len(new) == len(self.buf):
                    self.buf[:] = new  # same object, new content
                    ctx.cls("same_list_edited_in_place")
                else:
                    self.buf = new
                buf = self.buf
            have = ctx.call(f"{name}[{self.kind}]", guarded_query, self.kind, self.obj, op, buf)
            if name == "clear":
                self.cleared = True
                ctx.cls("op:clear")
            else:
                c = tuple(op[1])
                if name == "long":
                    ctx.nontrivial = True
                    ctx.cls("op:long")
                if self.cleared and c in self.seen:
                    ctx.nontrivial = True
                    ctx.cls("requery_after_clear")
                if len(c) < self.maxlen_seen and c not in self.seen and len(c) >= 1 and c[:-1] in self.seen:
                    ctx.nontrivial = True
                    ctx.cls("sibling_after_longer")
                self.seen.add(c)
                self.maxlen_seen = max(self.maxlen_seen, len(c))
                if not isinstance(have, LibRaised) and name != "chart":
                    want = ctx.call("fresh", self.fresh_answer, op)
                    if not isinstance(want, LibRaised):
                        ctx.check(
                            f"{name}[{self.kind}]|history",
                            same(have, want),
                            lambda: f"{self.kind}.{name}({_short(c)}) on the used object = {_short(have)}, fresh object = {_short(want)}",
                        )
        snap = snapshot(self.cfg)
        ctx.check("purity|grammar", snap == self.snap0, lambda: f"after {op[0]} the grammar object changed (rules/V/S/N)")

    def _pure(self, op):
        "transformations / queries applied to the grammar object itself must not change it"
        from genlm.grammar import FST

        ctx, cfg = self.ctx, self.cfg
        what = op[1]
        arg = tuple(op[2]) if len(op) > 2 else ()
        ctx.cls("op:pure")
        V = sorted(cfg.V)
        if what == "prefix_grammar":
            ctx.call("pure:prefix_grammar", lambda: cfg.prefix_grammar)
        elif what == "cnf":
            ctx.call("pure:cnf", lambda: cfg.cnf)
        elif what == "derivative":
            if V:
                ctx.call("pure:derivative", cfg.derivative, V[0])
        elif what == "prefix_weight":
            ctx.call("pure:prefix_weight", cfg.prefix_weight, arg)
        elif what == "call":
            ctx.call("pure:call", cfg, arg)
        elif what == "agenda":
            ctx.call("pure:agenda", cfg.agenda)
        elif what == "truncate":
            ctx.call("pure:truncate", cfg.truncate_length, 2)
        elif what == "matmul":
            def f():
                t = FST(cfg.R)
                t.add_I(0, cfg.R.one)
                t.add_F(0, cfg.R.one)
                for a in V:
                    t.add_arc(0, (a, a), 0, cfg.R.one)
                    t.add_arc(0, (a, ""), 0, cfg.R.one)
                return cfg @ t
            ctx.call("pure:matmul", f)
        elif what == "unfold":
            sites = xform.unfold_sites(cfg)
            if sites:
                ctx.call("pure:unfold", xform.apply, cfg, "unfold", sites[0])
        else:
            ctx.call("pure:" + what, xform.apply, cfg, what)

    def close(self):
        sched.install(None)


def _short(x):
    s = repr(x)
    return s if len(s) < 160 else s[:70] + " ... " + s[-70:]


def check(case, ctx):
    sim = Sim(case["init"], ctx)
    try:
        for op in case["ops"]:
            sim.apply(op)
    finally:
        sim.close()


# ---------------------------------------------------------------------------------------------


def run_machine(tier, hseed, n_examples, account, process, state):
    import hypothesis
    from hypothesis import HealthCheck, Phase, settings
    from hypothesis.stateful import RuleBasedStateMachine, initialize, precondition, rule, run_state_machine_as_test

    from vf.core import Found

    class History(RuleBasedStateMachine):
        def __init__(self):
            super().__init__()
            self.case = None
            self.sim = None
            self.ctx = Ctx()
            self.contexts = [()]
            self.swept = False

        @initialize(init=init_strategy(tier))
        def setup(self, init):
            self.case = {"init": init, "ops": []}
            self.sim = Sim(init, self.ctx)
            self.V = list(init["g"]["V"])
            self._after()

        def _do(self, op):
            self.case["ops"].append(op)
            self.sim.apply(op)
            self._after()

        def _after(self):
            f = process(self.case, self.ctx)
            if f is not None:
                import json

                from vf import core

                state["last"] = (json.loads(core.dumps(self.case)), f)
                raise Found(f.bucket)

        def _context(self, data):
            mode = data.draw(st.sampled_from(["extend", "extend", "sibling", "prefix", "fresh", "repeat"]))
            toks = self.V + ([EOS] if data.draw(st.integers(0, 9)) < 3 and self.sim.kind in IS_LM else [])
            base = self.contexts[data.draw(st.integers(0, len(self.contexts) - 1))]
            if not toks:
                return ()
            if mode == "extend":
                c = base + (data.draw(st.sampled_from(toks)),)
            elif mode == "sibling":
                c = base[:-1] + (data.draw(st.sampled_from(toks)),)
            elif mode == "prefix":
                c = base[: data.draw(st.integers(0, max(0, len(base) - 1)))]
            elif mode == "repeat":
                c = base
            else:
                c = tuple(data.draw(st.lists(st.sampled_from(toks), max_size=4)))
            if len(c) > 6:
                c = c[:6]
            self.contexts.append(c)
            return c

        @rule(data=st.data())
        def p_next(self, data):
            self._do(["p_next", list(self._context(data))])

        @rule(data=st.data())
        def p_next_same_list(self, data):
            "p_next on the caller's own list object; consecutive queries of equal length edit it in place"
            c = self._context(data)
            if self.case["ops"] and self.case["ops"][-1][0] == "p_next_buf" and data.draw(st.booleans()):
                prev = self.case["ops"][-1][1]
                toks = self.V
                if prev and toks:
                    c = tuple(prev[:-1]) + (data.draw(st.sampled_from(toks)),)
            self._do(["p_next_buf", list(c)])

        @precondition(lambda self: self.sim is not None and self.sim.kind in IS_LM)
        @rule(data=st.data())
        def model_call(self, data):
            c = tuple(t for t in self._context(data) if t != EOS)
            name = "model_logp" if self.sim.kind == "EarleyLM_R" and data.draw(st.booleans()) else "model_call"
            self._do([name, list(c)])

        @rule(data=st.data())
        def call(self, data):
            c = tuple(t for t in self._context(data) if t != EOS)
            self._do(["call", list(c)])

        @rule(data=st.data())
        def chart(self, data):
            self._do(["chart", list(self._context(data))])

        @rule()
        def clear(self):
            self._do(["clear"])

        @precondition(lambda self: self.sim is not None and not self.swept and len(self.V) >= 1)
        @rule(data=st.data())
        def sweep(self, data):
            "every context of length <= 2 (<= 1 for 3 terminals... all of them), in a drawn order"
            self.swept = True
            n = 2 if len(self.V) <= 2 else data.draw(st.integers(1, 2))
            ctxs = [list(c) for c in gen.all_strings(self.V, n)]
            if self.sim.kind in IS_LM and data.draw(st.booleans()):
                # complete sentences (context + EOS) are contexts too
                ctxs += [c + [EOS] for c in ctxs if len(c) <= 1]
            for i in data.draw(st.permutations(range(len(ctxs)))):
                self.contexts.append(tuple(ctxs[i]))
                op = "p_next" if EOS in ctxs[i] else data.draw(st.sampled_from(["p_next", "p_next", "call"]))
                self._do([op, ctxs[i]])

        @rule(data=st.data())
        def pure(self, data):
            what = data.draw(st.sampled_from(PURE_OPS))
            op = ["pure", what]
            if what in ("prefix_weight", "call"):
                op.append([t for t in self._context(data) if t != EOS][:3])
            self._do(op)

        @precondition(lambda self: self.sim is not None and self.sim.init.get("loopy") and (self.sim.init.get("cky_long") or self.sim.kind not in ("CKY", "CKYLM", "BoolLM_c")) and not any(o[0] == "long" for o in self.case["ops"]))
        @rule(data=st.data())
        def long_context(self, data):
            L = data.draw(st.integers(520, 700)) if self.sim.kind not in ("CKY", "CKYLM", "BoolLM_c") else data.draw(st.integers(520, 540))  # cubic parser
            pat = data.draw(st.lists(st.sampled_from(self.V), min_size=1, max_size=4))
            c = [pat[i % len(pat)] for i in range(L)]
            self._do(["long", c])

        def teardown(self):
            if self.sim is not None:
                self.sim.close()
            if self.case is not None:
                account(self.case, self.ctx)

    run_state_machine_as_test(
        hypothesis.seed(hseed)(History),
        settings=settings(
            max_examples=n_examples,
            stateful_step_count=steps(tier),
            database=None,
            deadline=None,
            derandomize=False,
            report_multiple_bugs=False,
            phases=(Phase.generate,),
            suppress_health_check=list(HealthCheck),
            print_blob=False,
        ),
    )
