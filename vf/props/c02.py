"""
C02  Every parser returns the derivation-sum weight of a string.

Oracle: vf.cfgref.Inside (definitional span recursion with an exact same-span linear solve; no
normal form) against cfg(xs), Earley, rescaled Earley (Float), IncrementalCKY(cfg.cnf) and
cfg.materialize(n).  Regimes BOOL / MT / MP / FREE (derivation multisets) / QQ / FLOAT / REAL / LOG.
Metamorphic axes: rule order, injective renaming, agenda tie-break salt, PYTHONHASHSEED (per shard).
"""

from hypothesis import strategies as st

from vf import gen, sched
from vf.build import lib_cfg
from vf.cfgref import RG, Inside
from vf.core import LibRaised
from vf.semi import model

ID = "C02"
RULE = (
    "case = (grammar <=4 nonterminals, <=8 rules, bodies 0..4, regime, rule rotation, renaming, "
    "agenda tie-break salt); every string over V up to the length bound, plus in a third of the cases up to three "
    "strings of length <= 6 obtained by random derivations, is evaluated by each "
    "parser and compared with the reference inside weight; non-trivial = some non-empty string "
    "has non-zero reference weight and some string has zero weight (or the grammar is nullable); "
    "distinct = SHA-1 of the case JSON"
)
ASSUMPTIONS = [
    "reference: vf.cfgref.Inside, validated by vf.selftest against brute-force derivation enumeration",
    "FLOAT-like regimes compare with relative tolerance 1e-8; BOOL/MT/MP/FREE/QQ compare exactly",
    "QQ grammars have no nullable cycle, FREE grammars no cyclic derivation (deterministic repair in the generator)",
    "strings are over the declared vocabulary V (which may contain tokens no rule uses)",
]

REGIMES = ["BOOL", "MT", "MP", "FREE", "QQ", "QQ", "FLOAT", "FLOAT", "REAL", "LOG"]


def examples(tier):
    return 3200 if tier == "quick" else 32000


@st.composite
def strategy(draw, tier="quick"):
    g = draw(gen.grammar(regimes=REGIMES, symbols=True, signed=True, cycle_rate=0.2, **gen.size(tier)))
    return {
        "g": g,
        "perm": draw(st.sampled_from([0, 0, 1, 3, "rev"])),
        "rename": draw(st.sampled_from(["id", "id", "tuple", "int", "str"])),
        "salt": draw(st.one_of(st.none(), st.integers(0, 2**32 - 1))),
        "n": 3 if tier == "quick" else draw(st.sampled_from([3, 3, 4])),
        "extra": draw(gen.derived_strings(g)) if draw(st.integers(0, 2)) == 0 else [],
    }


def _count_derivs(cnf, depth, cap):
    "number of derivation trees of height <= depth of a CNF grammar read as data (budget only)"
    heads = {r.head for r in cnf.rules}
    t = {X: 0 for X in heads}
    for _ in range(depth):
        t2 = {}
        for X in heads:
            tot = 0
            for r in cnf.rules:
                if r.head != X:
                    continue
                p = 1
                for y in r.body:
                    p *= 1 if cnf.is_terminal(y) else t.get(y, 0)
                tot += p
            t2[X] = min(tot, cap + 1)
        t = t2
    return t.get(cnf.S, 0)


def check(case, ctx):
    from genlm.grammar.parse import earley as E1, earley_rescaled as E2
    from genlm.grammar.parse.cky import IncrementalCKY

    g = case["g"]
    M = model(g["regime"])
    G = RG.from_case(M, g)
    ref = Inside(G)
    ctx.cls(*gen.classify(g), "regime:" + g["regime"], "salted" if case.get("salt") is not None else None)

    cfg = ctx.call("build", lib_cfg, M, g, case.get("perm"), case.get("rename"))
    strings = gen.all_strings(g["V"], case.get("n", 3))
    from vf.cfgref import sym

    longer = [tuple(sym(y) for y in s) for s in case.get("extra", [])]
    longer = [s for s in dict.fromkeys(longer) if s not in set(strings)]
    if longer:
        ctx.cls("derived_strings_len>=%d" % min(6, max(len(s) for s in longer)))
    strings = strings + longer
    want = {xs: ref(xs) for xs in strings}
    if M.exact:
        nz = [xs for xs in strings if not M.is_zero(want[xs])]
    else:
        # Inexact models have non-negative weights, so a string has non-zero weight iff it has a
        # derivation: the support is decided exactly on the Boolean skeleton (the float reference may
        # carry a residue of 1e-17 where the true value is 0, and true weights may be as small as 1e-14)
        B = model("BOOL")
        skel = Inside(RG(B, G.S, G.V, [(True, h, b) for (w, h, b) in G.rules]))
        nz = [xs for xs in strings if skel(xs)]
        # ... but a derivation may weigh 4e-16, below the 1e-12 at which the library's own fixed
        # points discard increments: such strings may or may not be tabulated (not judged)
        import math

        def mag(v):
            v = float(v)
            return math.exp(v) if M.name == "LOG" else abs(v)

        top = max([mag(want[xs]) for xs in strings] + [1.0])
        optional = {xs for xs in nz if mag(want[xs]) <= 1e-9 * top}
    ctx.nontrivial = (any(len(xs) > 0 for xs in nz) and len(nz) < len(strings)) or bool(
        nz and "has_nullable" in ctx.classes
    )

    sched.install(case.get("salt"))
    try:
        parsers = [("cfg()", lambda: cfg)]
        parsers.append(("earley", lambda: E1.Earley(cfg)))
        if g["regime"] == "FLOAT":
            parsers.append(("earley_rescaled", lambda: E2.Earley(cfg)))
        parsers.append(("cky", lambda: IncrementalCKY(cfg.cnf)))
        for name, mk in parsers:
            p = ctx.call(name + ".init", mk)
            if isinstance(p, LibRaised):
                continue
            for xs in strings:
                have = ctx.call(name, p, xs)
                ctx.eq(name, M, have, want[xs], what=f"xs={xs}")
    finally:
        sched.install(None)

    # weight of the empty string per nonterminal, and the sub-language view cfg[X]
    if case.get("rename") != "int":  # (the int renaming numbers symbols in order of first use)
        from vf.build import renamer
        from vf.cfgref import null

        f = renamer(case.get("rename"))
        nullw = null(G)
        nw = ctx.call("null_weight", cfg.null_weight)
        if not isinstance(nw, LibRaised):
            for X in G.N:
                ctx.eq("null_weight", M, nw[f(X)], nullw[X], what=f"X={X}")
        ns = ctx.call("null_weight_start", cfg.null_weight_start)
        ctx.eq("null_weight_start", M, ns, want[()], what="start")
        heads = sorted({h for _, h, _ in G.rules}, key=repr)
        if heads:
            X = heads[(case.get("salt") or 0) % len(heads)]
            sub_ = ctx.call("getitem", lambda: cfg[f(X)])
            if not isinstance(sub_, LibRaised):
                for xs in strings[:15]:
                    have = ctx.call("getitem.call", sub_, xs)
                    if not ctx.eq("getitem.call", M, have, ref(xs, X), what=f"cfg[{X}]({xs})"):
                        break

    # tabulation
    for n in range(0, min(case.get("n", 3), 3) + 1):
        cnf = ctx.call("materialize.cnf", lambda: cfg.cnf)
        if isinstance(cnf, LibRaised):
            break
        if _count_derivs(cnf, max(n, 1), 5000) > 5000:
            ctx.cls("materialize_skipped_budget")
            break
        tab = ctx.call("materialize", cfg.materialize, n)
        if isinstance(tab, LibRaised):
            continue
        ctx.evals += 1
        have_keys = {tuple(k) for k, v in tab.items() if not M.is_zero(M.from_lib(v))}
        want_keys = {xs for xs in nz if len(xs) <= n}
        if not M.exact:
            want_keys = (want_keys - optional) | (have_keys & optional)
        if any(len(k) > n for k in tab):
            ctx.fail("materialize|toolong", f"materialize({n}) lists a string longer than {n}")
        if have_keys != want_keys:
            ctx.fail(
                "materialize|keys",
                f"materialize({n}): missing {sorted(want_keys - have_keys)} extra {sorted(have_keys - want_keys)}",
            )
        for k in have_keys & want_keys:
            ctx.eq("materialize", M, tab[k], want[k], what=f"n={n} xs={k}")
