"""
C16  Shipped weight types obey the closed-semiring laws.

The oracle is the list of laws itself, evaluated on triples of values per shipped type: exact
scores (ints, Fractions, -inf) wherever the type allows, floats with a stated tolerance otherwise;
always including the zero / one constants *and freshly constructed equal values* (the Entropy type
tests identity, not equality, in its shortcuts).
"""

import math
from fractions import Fraction

from hypothesis import strategies as st

from vf.core import LibRaised

ID = "C16"
RULE = (
    "case = (weight type, score kind, three values a,b,c, star operand); values are the class "
    "constants zero/one, freshly constructed copies of them, or drawn scores (Boolean exhaustive; "
    "Real/Float ints, Fractions, floats; MaxPlus ints and -inf; MaxTimes non-negative Fractions; Log "
    "finite floats in [-6,3], scores hundreds of nats apart (-38 .. -1000, 37 .. 300) and -inf; Expectation/Entropy pairs); all additive, multiplicative, distributive, "
    "annihilation and commutativity laws plus star(x) = 1 + x star(x) = 1 + star(x) x where the series "
    "converges; non-trivial = no operand is a constant or a copy of one; distinct = SHA-1 of the case"
)
ASSUMPTIONS = [
    "exact scores are compared exactly; float scores with rel 1e-9 / abs 1e-12",
    "star only where the geometric series converges: |x|<1 (Real/Float), x<=0 (MaxPlus), 0<=x<=1 (MaxTimes), x<0 (Log), p<1 (pairs)",
]
TYPES = ["Boolean", "Real", "Float", "MaxPlus", "MaxTimes", "Log", "Entropy", "Expectation"]


def examples(tier):
    return 4000 if tier == "quick" else 80000


def _num(kind):
    if kind == "int":
        return st.integers(-3, 4).map(str)
    if kind == "frac":
        return st.fractions(min_value=-3, max_value=3, max_denominator=8).map(str)
    return st.floats(min_value=-4, max_value=4, allow_nan=False, width=32).map(repr)


@st.composite
def value(draw, T, kind):
    r = draw(st.integers(0, 11))
    if r == 0:
        return "ZERO"
    if r == 1:
        return "ONE"
    if r == 2:
        return "fresh0"
    if r == 3:
        return "fresh1"
    if T == "Boolean":
        return draw(st.sampled_from(["0", "1"]))
    if T in ("Real", "Float"):
        return draw(_num(kind))
    if T == "MaxPlus":
        return draw(st.sampled_from(["-inf"] + [str(i) for i in range(-5, 4)]))
    if T == "MaxTimes":
        if draw(st.integers(0, 7)) == 0:
            return draw(st.sampled_from(["3000000000", "4000000000", "65536", "1/4000000000"]))  # counts / tiny probabilities
        return str(draw(st.fractions(min_value=0, max_value=3, max_denominator=8)))
    if T == "Log":
        # log-probabilities span hundreds of nats in practice (a 100-token string at p=0.01 is -460):
        # a quarter of the values are far apart, where one addend vanishes next to the other
        return draw(st.one_of(st.just("-inf"), st.floats(min_value=-6, max_value=3, allow_nan=False, width=32).map(repr), st.floats(min_value=-6, max_value=3, allow_nan=False, width=32).map(repr), st.sampled_from(["-38.0", "-40.5", "-100.0", "-460.0", "-745.0", "-1000.0", "37.5", "80.0", "300.0"])))
    # pairs
    if kind == "frac":
        return str(draw(st.fractions(min_value=0, max_value=2, max_denominator=8))) + "," + str(draw(st.fractions(min_value=-2, max_value=2, max_denominator=8)))
    return repr(draw(st.floats(min_value=0, max_value=2, allow_nan=False, width=32))) + "," + repr(draw(st.floats(min_value=-2, max_value=2, allow_nan=False, width=32)))


@st.composite
def star_operand(draw, T, kind):
    if T == "Boolean":
        return draw(st.sampled_from(["0", "1", "ZERO", "ONE"]))
    if T in ("Real", "Float"):
        if draw(st.integers(0, 7)) == 0:
            # close to divergence: 1 - 2^-k is exact both as a Fraction and as a float
            k = draw(st.sampled_from([10, 20, 30, 44, 50]))
            x = 1 - Fraction(1, 2**k)
            return repr(float(x)) if kind == "float" else str(x)
        if kind == "float":
            return repr(draw(st.floats(min_value=-0.875, max_value=0.875, allow_nan=False, width=32)))
        return str(draw(st.fractions(min_value=Fraction(-7, 8), max_value=Fraction(7, 8), max_denominator=8)))
    if T == "MaxPlus":
        return draw(st.sampled_from(["-inf", "ZERO", "ONE", "0", "-1", "-4"]))
    if T == "MaxTimes":
        return draw(st.sampled_from(["ZERO", "ONE", "0", "1", "1/2", "3/8"]))
    if T == "Log":
        return draw(st.one_of(st.just("-inf"), st.just("ZERO"), st.floats(min_value=-6, max_value=-0.0625, allow_nan=False, width=32).map(repr)))
    if kind == "frac":
        return str(draw(st.fractions(min_value=0, max_value=Fraction(7, 8), max_denominator=8))) + "," + str(draw(st.fractions(min_value=-2, max_value=2, max_denominator=8)))
    return repr(draw(st.floats(min_value=0, max_value=0.875, allow_nan=False, width=32))) + "," + repr(draw(st.floats(min_value=-2, max_value=2, allow_nan=False, width=32)))


@st.composite
def strategy(draw, tier="quick"):
    T = draw(st.sampled_from(TYPES))
    kind = draw(st.sampled_from(["int", "frac", "float"])) if T in ("Real", "Float") else draw(st.sampled_from(["frac", "float"])) if T in ("Entropy", "Expectation") else "std"
    return {"type": T, "kind": kind, "vals": [draw(value(T, kind)) for _ in range(3)], "star": draw(star_operand(T, kind))}


def _scalar(s):
    if s in ("-inf", "inf"):
        return float(s)
    if "/" in s:
        return Fraction(s)
    try:
        return int(s)
    except ValueError:
        return float(s)


def mk(T, R, s):
    if s == "ZERO":
        return R.zero
    if s == "ONE":
        return R.one
    if T == "Float":
        if s == "fresh0":
            return 0.0
        if s == "fresh1":
            return 1.0
        return _scalar(s)
    if s in ("fresh0", "fresh1"):
        z = s == "fresh0"
        if T == "Boolean":
            return R(not z)
        if T == "MaxPlus":
            return R(-math.inf) if z else R(0.0)
        if T == "MaxTimes":
            return R(0) if z else R(1)
        if T == "Log":
            return R(-math.inf) if z else R(0.0)
        if T == "Real":
            return R(0) if z else R(1)
        return R(0.0, 0.0) if z else R(1.0, 0.0)
    if T == "Boolean":
        return R(s == "1")
    if T in ("Entropy", "Expectation"):
        p, r = s.split(",")
        return R(_scalar(p), _scalar(r))
    return R(_scalar(s))


def score(T, x):
    return x if T == "Float" else x.score


def same(u, v):
    if isinstance(u, tuple):
        return len(u) == len(v) and all(same(a, b) for a, b in zip(u, v))
    if isinstance(u, bool) or isinstance(v, bool):
        return u == v
    if isinstance(u, float) or isinstance(v, float):
        u, v = float(u), float(v)
        if math.isnan(u) or math.isnan(v):
            return False
        if math.isinf(u) or math.isinf(v):
            return u == v
        return abs(u - v) <= 1e-9 * max(abs(u), abs(v)) + 1e-12
    return u == v


def check(case, ctx):
    from genlm.grammar import semiring as S

    T = case["type"]
    R = getattr(S, T)
    a, b, c = (mk(T, R, s) for s in case["vals"])
    ctx.cls("type:" + T, "kind:" + case["kind"])
    ctx.nontrivial = not any(s in ("ZERO", "ONE", "fresh0", "fresh1") for s in case["vals"])
    zero, one = R.zero, R.one

    def law(name, lhs, rhs):
        L = ctx.call(f"{T}.{name}", lhs)
        Rr = ctx.call(f"{T}.{name}", rhs)
        if isinstance(L, LibRaised) or isinstance(Rr, LibRaised):
            return
        if T != "Float":
            ctx.check(f"{T}.{name}|type", isinstance(L, R) and isinstance(Rr, R), lambda: f"{T} {name}: result {L!r} / {Rr!r} is not a {T}")
            if not (isinstance(L, R) and isinstance(Rr, R)):
                return
        ctx.check(f"{T}.{name}", same(score(T, L), score(T, Rr)), lambda: f"{T} {name} fails for a={a!r} b={b!r} c={c!r}: {L!r} != {Rr!r}")

    law("add_assoc", lambda: (a + b) + c, lambda: a + (b + c))
    law("add_comm", lambda: a + b, lambda: b + a)
    law("add_zero_r", lambda: a + zero, lambda: a)
    law("add_zero_l", lambda: zero + a, lambda: a)
    law("mul_assoc", lambda: (a * b) * c, lambda: a * (b * c))
    law("mul_one_r", lambda: a * one, lambda: a)
    law("mul_one_l", lambda: one * a, lambda: a)
    law("distrib_l", lambda: a * (b + c), lambda: a * b + a * c)
    law("distrib_r", lambda: (a + b) * c, lambda: a * c + b * c)
    law("annihil_r", lambda: a * zero, lambda: zero)
    law("annihil_l", lambda: zero * a, lambda: zero)
    law("mul_comm", lambda: a * b, lambda: b * a)

    x = mk(T, R, case["star"])
    st_ = (lambda: R.star(x))
    law("star_r", lambda: st_(), lambda: one + x * st_())
    law("star_l", lambda: st_(), lambda: one + st_() * x)

    # in a field the equation s = 1 + x s has exactly one solution: the closed form of the series
    if T in ("Real", "Float") and case["star"] not in ("ZERO", "ONE", "fresh0", "fresh1"):
        xv = _scalar(case["star"])
        closed = 1 / (1 - (Fraction(xv) if not isinstance(xv, float) else Fraction(xv)))
        sv = ctx.call(f"{T}.star", st_)
        if not isinstance(sv, LibRaised):
            got = score(T, sv)
            ok = (Fraction(got) == closed) if not isinstance(got, float) else abs(got - float(closed)) <= 1e-9 * abs(float(closed))
            ctx.check(f"{T}.star_value", ok, lambda: f"{T}.star({case['star']}) = {got!r}, the series sums to {closed}")
