"""
C04  Grammar language models are the exact left-to-right factorisation.

Oracle: conditionals computed from reference prefix / inside / total weights (vf.cfgref) for short
contexts; for long contexts (600-1500 tokens, probabilities far below 1e-300) exact Fraction
forward vectors of a small sub-stochastic automaton whose right-linear grammar is handed to the
library.
"""

import math
from fractions import Fraction

from hypothesis import strategies as st

from vf import gen, sched
from vf.build import lib_cfg
from vf.cfgref import RG, Inside, prefix, total
from vf.core import LibRaised
from vf.semi import model

ID = "C04"
EOS = "▪"
RULE = (
    "case kind 'short' = (convergent Float grammar of any shape, optionally passed through "
    "locally_normalize, tie-break salt, rule rotation): for all contexts over V up to length 3 (plus "
    "contexts containing EOS) each of EarleyLM / rescaled EarleyLM / CKYLM must return the reference "
    "conditionals (sum 1; zero everywhere for non-viable contexts), the chain rule must give "
    "weight/total, and un-normalised next-token weights must equal the parser's weight of the extended "
    "context; kind 'long' = right-linear grammar of a random sub-stochastic automaton with a viable "
    "context of 600-1500 tokens: rescaled p_next and logp against exact Fraction forward vectors; "
    "non-trivial = a viable context with >=2 continuations, or a long context of probability < 1e-300; "
    "distinct = SHA-1 of the case"
)
ASSUMPTIONS = [
    "finite total weight by construction; rtol 1e-6 on conditionals and chain-rule values (the library discards fixed-point increments below 1e-12 one at a time, which adds up to 1e-9..1e-8 on the normal-form prefix grammars)",
    "the plain (non-rescaled) Earley parser is not required to survive underflow",
    "long contexts are warmed in steps of 200 tokens so that C04 does not depend on the cold-cache behaviour examined by C05",
]
# The library's fixed points (CFG.agenda) discard every pending increment smaller than 1e-12
# instead of applying it; on the normal-form prefix grammars behind the language models (hundreds of
# nonterminals) the discarded increments add up to 1e-9 .. 1e-8 relative, depending on the set order.
# That is the "convergence tolerance" the statements allow; genuine losses are >= 1e-4.
TOL = 1e-6


def examples(tier):
    return 600 if tier == "quick" else 8000


@st.composite
def strategy(draw, tier="quick"):
    kind = draw(st.sampled_from(["short"] * 5 + ["long"]))
    salt = draw(st.one_of(st.none(), st.integers(0, 2**32 - 1)))
    if kind == "short":
        g = draw(gen.grammar(regimes=["FLOAT"], max_terms=2, cycle_rate=0.35))
        return {
            "kind": "short",
            "g": g,
            "normalize": draw(st.booleans()),
            "perm": draw(st.sampled_from([0, 1, "rev"])),
            "salt": salt,
            "eos_ctx": draw(st.integers(0, 2)),
        }
    # long: automaton with 1-3 states over {a,b}
    n = draw(st.integers(1, 3))
    arcs = []
    for q in range(n):
        k = draw(st.integers(1, 3))
        for _ in range(k):
            arcs.append([q, draw(st.sampled_from(["a", "b"])), draw(st.integers(0, n - 1)), str(Fraction(draw(st.sampled_from([1, 2, 3])), 4 * k))])
    stop = [[q, str(Fraction(draw(st.sampled_from([1, 2])), 8))] for q in range(n) if draw(st.integers(0, 2)) > 0 or q == n - 1]
    return {
        "kind": "long",
        "n": n,
        "arcs": arcs,
        "stop": stop,
        "length": draw(st.integers(600, 1500 if tier == "thorough" else 900)),
        "pattern": draw(st.lists(st.integers(0, 5), min_size=1, max_size=6)),
        "salt": salt,
    }


def close(a, b, tol=TOL):
    return not (math.isnan(a) or math.isinf(a)) and abs(a - b) <= tol * abs(b) + 1e-10


def check(case, ctx):
    sched.install(case.get("salt"))
    try:
        if case["kind"] == "short":
            _short(case, ctx)
        else:
            _long(case, ctx)
    finally:
        sched.install(None)


def _lms(ctx, cfg):
    from genlm.grammar.parse import cky, earley, earley_rescaled

    out = []
    for name, mk in [("EarleyLM", earley.EarleyLM), ("EarleyLM_rescaled", earley_rescaled.EarleyLM), ("CKYLM", cky.CKYLM)]:
        lm = ctx.call(name + ".init", mk, cfg)
        if not isinstance(lm, LibRaised):
            out.append((name, lm))
    return out


def _short(case, ctx):
    from genlm.grammar import add_EOS, locally_normalize
    from genlm.grammar.parse.cky import IncrementalCKY
    from genlm.grammar.parse.earley import Earley

    g = case["g"]
    M = model("FLOAT")
    ctx.cls(*gen.classify(g), "short", "normalized" if case.get("normalize") else "unnormalized")
    cfg = ctx.call("build", lib_cfg, M, g, case.get("perm"))
    if case.get("normalize"):
        cfg = ctx.call("locally_normalize", locally_normalize, cfg)
        if isinstance(cfg, LibRaised):
            return
    G = RG.from_lib(M, cfg)
    V = sorted(cfg.V)
    ins = Inside(G)
    Z = total(G)[G.S]
    contexts = gen.all_strings(V, 3)
    pw = {}

    def PW(c):
        if c not in pw:
            pw[c] = prefix(G, c)
        return pw[c]

    def conditionals(c):
        if EOS in c or PW(c) <= 1e-300:
            return None
        d = {t: PW(c + (t,)) / PW(c) for t in V}
        d[EOS] = ins(c) / PW(c)
        return d

    k = case.get("eos_ctx", 0)
    eos_contexts = []
    if k:
        base = contexts[: 1 + len(V) + len(V) ** 2]
        eos_contexts = [c[:i] + (EOS,) + c[i:] for c in base for i in range(len(c) + 1)][k - 1 :: 2]

    for name, lm in _lms(ctx, cfg):
        for c in contexts + eos_contexts:
            want = conditionals(c)
            p = ctx.call(name + ".p_next", lm.p_next, c)
            if isinstance(p, LibRaised):
                break
            if want is None:
                ctx.check(name + "|nonviable", all(v == 0 for v in p.values()), lambda: f"{name}: non-viable context {c} got {dict(p)}")
                continue
            if sum(1 for v in want.values() if v > 0) >= 2:
                ctx.nontrivial = True
            tot = sum(p.values())
            ctx.check(name + "|sum", close(tot, 1.0), lambda: f"{name}: p_next({c}) sums to {tot}")
            # a conditional is a ratio of totals that the library's fixed points deliver with an
            # absolute error of about 1e-12: relative to a small prefix weight that is 1e-11 / PW(c)
            tolc = TOL + 1e-11 / max(PW(c), 1e-300)
            bad = [(t, p[t], want[t]) for t in want if not close(p[t], want[t], tolc)]
            extra = [t for t in p if t not in want]
            ctx.check(name + "|cond", not bad and not extra, lambda: f"{name}: p_next({c}): (token, have, want) {bad[:3]} extra {extra}")
            if bad:
                break
        # chain rule
        if Z > 1e-12:
            for x in contexts[: 1 + len(V) + len(V) ** 2]:
                have = ctx.call(name + ".call", lm, x + (EOS,))
                if isinstance(have, LibRaised):
                    break
                ctx.check(name + "|chain", close(have, ins(x) / Z, TOL + 1e-11 / max(Z, 1e-300)), lambda: f"{name}: lm({x}+EOS) = {have}, weight/total = {ins(x) / Z}")

    # un-normalised next-token weights equal the parser's weight of the extended context
    e = ctx.call("add_EOS", add_EOS, cfg)
    if isinstance(e, LibRaised):
        return
    pg = ctx.call("prefix_grammar", lambda: e.prefix_grammar)
    if isinstance(pg, LibRaised):
        return
    VE = V + [EOS]
    E = ctx.call("Earley(pg)", Earley, pg)
    if not isinstance(E, LibRaised):
        for c in contexts[: 1 + len(V) + len(V) ** 2]:
            ntw = ctx.call("Earley.next_token_weights", lambda: E.next_token_weights(E.chart(c)))
            if isinstance(ntw, LibRaised):
                break
            for t in VE:
                ext = ctx.call("Earley(pg)()", E, c + (t,))
                if isinstance(ext, LibRaised):
                    break
                ref = ins(c) if t == EOS else PW(c + (t,))
                ok = ctx.check("Earley|ntw=parser", close(ntw[t], ext, 1e-10), lambda: f"next_token_weights({c})[{t}] = {ntw[t]} but parser({c + (t,)}) = {ext}")
                ctx.check("Earley|ntw=ref", close(ntw[t], ref), lambda: f"next_token_weights({c})[{t}] = {ntw[t]}, reference prefix weight {ref}")
                if not ok:
                    break
    pfg = ctx.call("cnf.prefix_grammar.cnf", lambda: e.cnf.prefix_grammar.cnf)
    if not isinstance(pfg, LibRaised):
        C = ctx.call("IncrementalCKY", IncrementalCKY, pfg)
        if not isinstance(C, LibRaised):
            for c in contexts[: 1 + len(V) + len(V) ** 2]:
                ntw = ctx.call("IncrementalCKY.p_next", C.p_next, c)
                if isinstance(ntw, LibRaised):
                    break
                for t in VE:
                    ext = ctx.call("IncrementalCKY()", C, c + (t,))
                    if isinstance(ext, LibRaised):
                        break
                    ref = ins(c) if t == EOS else PW(c + (t,))
                    ctx.check("CKY|ntw=parser", close(ntw[t], ext, 1e-10), lambda: f"IncrementalCKY.p_next({c})[{t}] = {ntw[t]} but parser = {ext}")
                    ctx.check("CKY|ntw=ref", close(ntw[t], ref), lambda: f"IncrementalCKY.p_next({c})[{t}] = {ntw[t]}, reference {ref}")


def _right_linear(arcs, stop):
    from genlm.grammar import CFG, Float

    cfg = CFG(R=Float, S="S", V={"a", "b"})
    cfg.add(1.0, "S", ("q", 0))
    for q, a, r, w in arcs:
        cfg.add(float(w), ("q", q), a, ("q", r))
    for q, w in stop.items():
        cfg.add(float(w), ("q", q))
    return cfg


def _subnormal_window(case, ctx, arcs, stop, b, f, c, alpha, n):
    """The non-rescaled back-ends are not required to survive underflow, but while the prefix weight
    of a viable context is still representable (here: subnormal, 1e-315 .. 1e-309) its next-token
    distribution must still be the normalised one (tolerance 1e-3: subnormals carry ~8 digits)."""
    from genlm.grammar.parse import earley

    den = sum(x * y for x, y in zip(alpha, b))
    want = {}
    for t in ["a", "b"]:
        new = [Fraction(0)] * n
        for q, a2, r, w in arcs:
            if a2 == t:
                new[r] += alpha[q] * w
        want[t] = float(sum(x * y for x, y in zip(new, b)) / den)
    want[EOS] = float(sum(x * y for x, y in zip(alpha, f)) / den)
    lm = ctx.call("EarleyLM.init", earley.EarleyLM, _right_linear(arcs, stop))
    if isinstance(lm, LibRaised):
        return
    p = ctx.call("EarleyLM.p_next[subnormal]", lm.p_next, c)
    if isinstance(p, LibRaised):
        return
    ctx.cls("subnormal_window")
    ctx.nontrivial = True
    vals = {t: float(p[t]) for t in want}
    ctx.check("subnormal|finite", all(math.isfinite(v) for v in vals.values()), lambda: f"plain EarleyLM, context of {len(c)} tokens with prefix weight ~1e-312: non-finite {vals}")
    ctx.check("subnormal|cond", all(abs(vals[t] - want[t]) <= 1e-3 for t in want), lambda: f"plain EarleyLM, context of {len(c)} tokens with prefix weight ~1e-312: have {vals} want {want}")


def _long(case, ctx):
    from genlm.grammar import CFG, Float
    from genlm.grammar.parse import earley_rescaled

    n = case["n"]
    arcs = [(q, a, r, Fraction(w)) for q, a, r, w in case["arcs"]]
    stop = {q: Fraction(w) for q, w in case["stop"]}
    ctx.cls("long")
    # exact backward totals b = (I - sum M)^-1 f  over the rationals
    from vf import lin

    Q = model("QQ")
    A = [[Fraction(0)] * n for _ in range(n)]
    for q, a, r, w in arcs:
        A[q][r] += w
    f = [stop.get(q, Fraction(0)) for q in range(n)]
    b = lin.solve_right(Q, A, f)
    if b[0] == 0:
        ctx.cls("empty")
        return
    # walk a viable context
    window = None
    LO, HI = math.log(1e-315), math.log(1e-309)
    alpha = [Fraction(1)] + [Fraction(0)] * (n - 1)
    ctxt = []
    logpw = 0.0
    pat = case["pattern"]
    for i in range(case["length"]):
        live = sorted({a for q, a, r, w in arcs if alpha[q] != 0 and b[r] != 0})
        if not live:
            break
        a = live[pat[i % len(pat)] % len(live)]
        new = [Fraction(0)] * n
        for q, a2, r, w in arcs:
            if a2 == a:
                new[r] += alpha[q] * w
        s = sum(x * y for x, y in zip(new, b))
        s0 = sum(x * y for x, y in zip(alpha, b))
        logpw += math.log(s / s0)
        alpha = [x / s for x in new]  # renormalise: conditionals are scale invariant
        ctxt.append(a)
        if window is None and LO <= logpw + math.log(float(b[0])) <= HI:
            window = (len(ctxt), list(alpha))
    ctxt = tuple(ctxt)
    if window is not None:
        _subnormal_window(case, ctx, arcs, stop, b, f, ctxt[: window[0]], window[1], n)
    logpw += math.log(float(b[0]))  # prefix weight of the empty context is b[0]
    if len(ctxt) < 500:
        ctx.cls("short_walk")
        return
    den = sum(x * y for x, y in zip(alpha, b))
    want = {}
    for t in ["a", "b"]:
        new = [Fraction(0)] * n
        for q, a2, r, w in arcs:
            if a2 == t:
                new[r] += alpha[q] * w
        want[t] = float(sum(x * y for x, y in zip(new, b)) / den)
    want[EOS] = float(sum(x * y for x, y in zip(alpha, f)) / den)
    if logpw < math.log(1e-300):
        ctx.nontrivial = True

    cfg = CFG(R=Float, S="S", V={"a", "b"})
    cfg.add(1.0, "S", ("q", 0))
    for q, a, r, w in arcs:
        cfg.add(float(w), ("q", q), a, ("q", r))
    for q, w in stop.items():
        cfg.add(float(w), ("q", q))
    lm = ctx.call("EarleyLM_rescaled.init", earley_rescaled.EarleyLM, cfg)
    if isinstance(lm, LibRaised):
        return
    for kk in range(0, len(ctxt) + 1, 200):
        if isinstance(ctx.call("warm", lm.model.chart, ctxt[:kk]), LibRaised):
            return
    p = ctx.call("EarleyLM_rescaled.p_next[long]", lm.p_next, ctxt)
    if isinstance(p, LibRaised):
        return
    vals = {t: float(p[t]) for t in want}
    ctx.check("long|finite", all(math.isfinite(v) for v in vals.values()), lambda: f"long context ({len(ctxt)} tokens): non-finite {vals}")
    ctx.check("long|sum", close(sum(float(v) for v in p.values()), 1.0, 1e-6), lambda: f"long context: p_next sums to {sum(p.values())}")
    ctx.check("long|cond", all(close(vals[t], want[t], 1e-6) for t in want), lambda: f"long context ({len(ctxt)} tokens): have {vals} want {want}")
    lp = ctx.call("Earley.logp", lm.model.logp, ctxt)
    if not isinstance(lp, LibRaised):
        ctx.check("long|logp", math.isfinite(lp) and abs(lp - logpw) <= 1e-6 + 1e-9 * abs(logpw), lambda: f"logp of {len(ctxt)} tokens: {lp}, exact log prefix weight {logpw}")
