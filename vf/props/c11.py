"""
C11  Automaton string weight is the sum over accepting paths.

Oracle: vf.autoref (alpha E* M_x1 E* ... beta as dense matrices over the model semiring; exact
Gaussian elimination over Q, power sums in idempotent models) against m(xs), m.epsremove(xs)
(which must have no epsilon arc) and m.total_weight(); acyclic machines additionally against
brute-force path enumeration.
"""

from hypothesis import strategies as st

from vf import autoref, gen
from vf.autoref import RA
from vf.build import lib_wfsa
from vf.core import LibRaised
from vf.semi import model

ID = "C11"
RULE = (
    "case = (automaton <=4 states, <=8 arcs over {a,b,eps}, parallel arcs, several initial/final "
    "states, unreachable and dead states, state names int/str/tuple; regime QQ / REAL / BOOL / MT / MP; "
    "base or field WFSA class); all strings up to length 3; non-trivial = the automaton has an "
    "epsilon cycle, or some string has >=2 accepting paths / non-zero weight through an epsilon arc; "
    "distinct = SHA-1 of the case"
)
ASSUMPTIONS = [
    "cyclic automata: per-state outgoing weight <= 3/4, so every path sum converges",
    "QQ/BOOL/MT/MP exact; REAL rtol 1e-8",
]
REGIMES = ["QQ", "QQ", "QQ", "REAL", "BOOL", "MT", "MP", "FLOAT"]


def examples(tier):
    return 2880 if tier == "quick" else 32000


@st.composite
def chain_case(draw):
    """a long line of states 0 -> 1 -> ... -> n (n = 260..320): mostly epsilon arcs, a few labelled
    ones, some parallel arcs; deep enough for depth-bounded searches, cheap to evaluate exactly"""
    n = draw(st.integers(260, 320))
    pos = sorted(draw(st.lists(st.integers(0, n - 1), min_size=1, max_size=3, unique=True)))
    arcs = []
    for i in range(n):
        if i in pos:
            arcs.append([i, draw(st.sampled_from(["a", "b"])), i + 1, draw(st.sampled_from(["1", "1/2", "1/3"]))])
            if draw(st.integers(0, 2)) == 0:
                arcs.append([i, "", i + 1, "1/4"])
        else:
            arcs.append([i, "", i + 1, "1" if i % 7 else "1/2"])
    # state numbers ascend or descend along the chain (searches that start from the smallest state
    # number then begin at the upstream or at the downstream end)
    order = draw(st.sampled_from(["up", "down"]))
    nm = (lambda i: i) if order == "up" else (lambda i: n - i)
    arcs = [[nm(q), a, nm(r), w] for q, a, r, w in arcs]
    return {"states": [nm(i) for i in range(n + 1)], "start": [[nm(0), "1"]], "stop": [[nm(n), "1/2"]], "arcs": arcs, "regime": "QQ", "acyclic": True, "alphabet": ["a", "b"], "api": "add", "chain": True, "order": order}


def chain_reference(M, c):
    "exact weights of a chain case by dynamic programming over (state, symbols consumed)"
    n = len(c["states"]) - 1
    pos = (lambda q: q) if c.get("order", "up") == "up" else (lambda q: n - q)
    out = {}
    for q, a, r, w in c["arcs"]:
        out.setdefault(pos(q), []).append((a, M.parse(w)))

    def weight(xs):
        f = {0: M.one}  # symbols consumed -> weight, at the current state
        for q in range(n):
            g = {}
            for k, v in f.items():
                for a, w in out.get(q, ()):
                    if a == "":
                        g[k] = M.add(g.get(k, M.zero), M.mul(v, w))
                    elif k < len(xs) and xs[k] == a:
                        g[k + 1] = M.add(g.get(k + 1, M.zero), M.mul(v, w))
            f = g
        return M.mul(f.get(len(xs), M.zero), M.parse(c["stop"][0][1]))

    def total():
        v = M.one
        for q in range(n):
            v = M.mul(v, M.sum(w for a, w in out.get(q, ())))
        return M.mul(v, M.parse(c["stop"][0][1]))

    return weight, total


@st.composite
def strategy(draw, tier="quick"):
    if draw(st.integers(0, 119)) == 0:
        return {"m": draw(chain_case()), "cls": "base", "n": 3}
    regime = draw(st.sampled_from(REGIMES))
    acyclic = draw(st.integers(0, 3)) == 0
    big = draw(st.integers(0, 4)) == 0
    m = draw(gen.automaton(regime=regime, acyclic=acyclic, alphabet=draw(st.sampled_from(gen.ALPHABETS)), signed=True, max_states=6 if big else 4, max_arcs=12 if big else 8))
    return {"m": m, "cls": draw(st.sampled_from(["base", "field"])), "n": draw(st.sampled_from([3, 3, 4, 5])) if tier == "quick" else draw(st.sampled_from([4, 5, 6]))}


def check_chain(case, ctx):
    c = case["m"]
    M = model("QQ")
    ctx.cls("long_chain", "regime:QQ")
    ctx.nontrivial = True
    weight, total = chain_reference(M, c)
    from vf.props.c05 import default_stack  # CPython's default recursion head-room, as a user has it

    def guarded(f, *a):
        with default_stack():
            return f(*a)

    m = ctx.call("build", lib_wfsa, M, c, "base")
    if isinstance(m, LibRaised):
        return
    for xs in gen.all_strings(["a", "b"], 3):
        have = ctx.call("call", guarded, m, xs)
        if not ctx.eq("call", M, have, weight(xs), what=f"chain of {len(c['states'])} states, xs={xs}"):
            break
    er = ctx.call("epsremove", lambda: m.epsremove)
    if not isinstance(er, LibRaised):
        ctx.check("epsremove|eps_arc", all(a != "" for _, a, _, _ in er.arcs()), "epsremove left an epsilon arc")
    tw = ctx.call("total_weight", guarded, m.total_weight)
    ctx.eq("total_weight", M, tw, total(), what="total")


def check(case, ctx):
    if case["m"].get("chain"):
        return check_chain(case, ctx)
    c = case["m"]
    M = model(c["regime"])
    A = RA.from_case(M, c)
    W = autoref.Weights(A)
    cl = gen.classify_automaton(c)
    ctx.cls(*cl, "regime:" + c["regime"], "cls:" + case["cls"])
    m = ctx.call("build", lib_wfsa, M, c, case["cls"])
    if isinstance(m, LibRaised):
        return
    strings = gen.all_strings(c.get("alphabet", ["a", "b"]), case.get("n", 3))
    ctx.cls("alphabet:" + repr(c.get("alphabet", ["a", "b"])))
    want = {xs: W(xs) for xs in strings}
    nz = [xs for xs in strings if not M.is_zero(want[xs])]
    ctx.nontrivial = bool(nz) and ("eps_cycle" in cl or "eps_arc" in cl or "parallel_arcs" in cl or "multi_initial" in cl)

    if c.get("acyclic"):
        for xs in strings[:15]:
            bf = autoref.path_sum_bruteforce(A, xs)
            if not M.eq(bf, want[xs]):
                from vf.lin import HarnessError

                raise HarnessError(f"autoref.weight disagrees with brute force on {c} xs={xs}")

    for xs in strings:
        have = ctx.call("call", m, xs)
        if not ctx.eq("call", M, have, want[xs], what=f"xs={xs}"):
            break
    er = ctx.call("epsremove", lambda: m.epsremove)
    if not isinstance(er, LibRaised):
        ctx.check("epsremove|eps_arc", all(a != "" for _, a, _, _ in er.arcs()), "epsremove left an epsilon arc")
        RE = autoref.Weights(RA.from_lib(M, er))
        for xs in strings:
            ctx.evals += 1
            v = RE(xs)
            if not M.eq(v, want[xs]):
                ctx.fail("epsremove|neq", f"epsremove (reference-evaluated) xs={xs}: {M.show(v)} want {M.show(want[xs])}")
                break
        for xs in strings[:7]:
            have = ctx.call("epsremove.call", er, xs)
            if not ctx.eq("epsremove.call", M, have, want[xs], what=f"xs={xs}"):
                break
    tw = ctx.call("total_weight", m.total_weight)
    ctx.eq("total_weight", M, tw, autoref.total(A), what="total")

    # ---- a derived machine is an ordinary machine: extend it, then query it (never queried before)
    for dname, mk in (("epsremove", lambda: lib_wfsa(M, c, case["cls"]).epsremove), ("reverse", lambda: lib_wfsa(M, c, case["cls"]).reverse), ("renumber", lambda: lib_wfsa(M, c, case["cls"]).renumber)):
        d = ctx.call("derived:" + dname, mk)
        if isinstance(d, LibRaised) or not d.states:
            continue
        qs = sorted(d.states, key=repr)
        a0 = gen.all_strings(c.get("alphabet", ["a", "b"]), 1)[1][0]
        w = M.to_lib(M.parse("1" if c["regime"] in ("BOOL",) else "0" if c["regime"] == "MP" else "1/2" if c["regime"] == "MT" else "1/16"))  # 3/4 + 2/16 < 1: still convergent
        ctx.call("derived.extend", d.add_arc, qs[0], "", qs[-1], w)
        ctx.call("derived.extend", d.add_arc, qs[-1], a0, qs[0], w)
        Wd = ctx.call("derived.read", lambda: autoref.Weights(RA.from_lib(M, d)))
        if isinstance(Wd, LibRaised):
            continue
        for xs in strings[:15]:
            have = ctx.call(f"derived:{dname}.call", d, xs)
            if not ctx.eq(f"derived:{dname}.call", M, have, Wd(xs), what=f"{dname} extended by two arcs, xs={xs}"):
                break
