"""
C11  Automaton string weight is the sum over accepting paths.

Oracle: vf.autoref (alpha E* M_x1 E* ... beta as dense matrices over the model semiring; exact
Gaussian elimination over Q, power sums in idempotent models) against m(xs), m.epsremove(xs)
(which must have no epsilon arc) and m.total_weight(); acyclic machines additionally against
brute-force path enumeration.
"""

from hypothesis import strategies as st

from vf import autoref, gen
from vf.autoref import RA
from vf.build import lib_wfsa
from vf.core import LibRaised
from vf.semi import model

ID = "C11"
RULE = (
    "case = (automaton <=4 states, <=8 arcs over {a,b,eps}, parallel arcs, several initial/final "
    "states, unreachable and dead states, state names int/str/tuple; regime QQ / REAL / BOOL / MT / MP; "
    "base or field WFSA class); all strings up to length 3; non-trivial = the automaton has an "
    "epsilon cycle, or some string has >=2 accepting paths / non-zero weight through an epsilon arc; "
    "distinct = SHA-1 of the case"
)
ASSUMPTIONS = [
    "cyclic automata: per-state outgoing weight <= 3/4, so every path sum converges",
    "QQ/BOOL/MT/MP exact; REAL rtol 1e-8",
]
REGIMES = ["QQ", "QQ", "QQ", "REAL", "BOOL", "MT", "MP", "FLOAT"]


def examples(tier):
    return 2880 if tier == "quick" else 32000


@st.composite
def strategy(draw, tier="quick"):
    regime = draw(st.sampled_from(REGIMES))
    acyclic = draw(st.integers(0, 3)) == 0
    big = draw(st.integers(0, 4)) == 0
    m = draw(gen.automaton(regime=regime, acyclic=acyclic, alphabet=draw(st.sampled_from(gen.ALPHABETS)), signed=True, max_states=6 if big else 4, max_arcs=12 if big else 8))
    return {"m": m, "cls": draw(st.sampled_from(["base", "field"])), "n": draw(st.sampled_from([3, 3, 4, 5])) if tier == "quick" else draw(st.sampled_from([4, 5, 6]))}


def check(case, ctx):
    c = case["m"]
    M = model(c["regime"])
    A = RA.from_case(M, c)
    W = autoref.Weights(A)
    cl = gen.classify_automaton(c)
    ctx.cls(*cl, "regime:" + c["regime"], "cls:" + case["cls"])
    m = ctx.call("build", lib_wfsa, M, c, case["cls"])
    if isinstance(m, LibRaised):
        return
    strings = gen.all_strings(c.get("alphabet", ["a", "b"]), case.get("n", 3))
    ctx.cls("alphabet:" + repr(c.get("alphabet", ["a", "b"])))
    want = {xs: W(xs) for xs in strings}
    nz = [xs for xs in strings if not M.is_zero(want[xs])]
    ctx.nontrivial = bool(nz) and ("eps_cycle" in cl or "eps_arc" in cl or "parallel_arcs" in cl or "multi_initial" in cl)

    if c.get("acyclic"):
        for xs in strings[:15]:
            bf = autoref.path_sum_bruteforce(A, xs)
            if not M.eq(bf, want[xs]):
                from vf.lin import HarnessError

                raise HarnessError(f"autoref.weight disagrees with brute force on {c} xs={xs}")

    for xs in strings:
        have = ctx.call("call", m, xs)
        if not ctx.eq("call", M, have, want[xs], what=f"xs={xs}"):
            break
    er = ctx.call("epsremove", lambda: m.epsremove)
    if not isinstance(er, LibRaised):
        ctx.check("epsremove|eps_arc", all(a != "" for _, a, _, _ in er.arcs()), "epsremove left an epsilon arc")
        RE = autoref.Weights(RA.from_lib(M, er))
        for xs in strings:
            ctx.evals += 1
            v = RE(xs)
            if not M.eq(v, want[xs]):
                ctx.fail("epsremove|neq", f"epsremove (reference-evaluated) xs={xs}: {M.show(v)} want {M.show(want[xs])}")
                break
        for xs in strings[:7]:
            have = ctx.call("epsremove.call", er, xs)
            if not ctx.eq("epsremove.call", M, have, want[xs], what=f"xs={xs}"):
                break
    tw = ctx.call("total_weight", m.total_weight)
    ctx.eq("total_weight", M, tw, autoref.total(A), what="total")

    # ---- a derived machine is an ordinary machine: extend it, then query it (never queried before)
    for dname, mk in (("epsremove", lambda: lib_wfsa(M, c, case["cls"]).epsremove), ("reverse", lambda: lib_wfsa(M, c, case["cls"]).reverse), ("renumber", lambda: lib_wfsa(M, c, case["cls"]).renumber)):
        d = ctx.call("derived:" + dname, mk)
        if isinstance(d, LibRaised) or not d.states:
            continue
        qs = sorted(d.states, key=repr)
        a0 = gen.all_strings(c.get("alphabet", ["a", "b"]), 1)[1][0]
        w = M.to_lib(M.parse("1" if c["regime"] in ("BOOL",) else "0" if c["regime"] == "MP" else "1/2" if c["regime"] == "MT" else "1/16"))  # 3/4 + 2/16 < 1: still convergent
        ctx.call("derived.extend", d.add_arc, qs[0], "", qs[-1], w)
        ctx.call("derived.extend", d.add_arc, qs[-1], a0, qs[0], w)
        Wd = ctx.call("derived.read", lambda: autoref.Weights(RA.from_lib(M, d)))
        if isinstance(Wd, LibRaised):
            continue
        for xs in strings[:15]:
            have = ctx.call(f"derived:{dname}.call", d, xs)
            if not ctx.eq(f"derived:{dname}.call", M, have, Wd(xs), what=f"{dname} extended by two arcs, xs={xs}"):
                break
