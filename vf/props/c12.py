"""
C12  Rational operations implement the algebra of weighted languages.

Oracle: a denotational evaluator over the expression tree at the *language* level (dict string ->
weight for all strings up to the bound), straight from the definitions in the statement: sum, Cauchy
product over splits, star as the least solution of S = 1 + A S, reversal; leaves are evaluated by
vf.autoref.  Compared with the constructed automaton both through the library's evaluator m(xs)
and through the reference evaluator applied to the automaton read as data.
"""

from fractions import Fraction

from hypothesis import strategies as st

from vf import autoref, gen
from vf.autoref import RA
from vf.build import lib_wfsa, renamer
from vf.core import LibRaised
from vf.semi import model

ID = "C12"
N = 3
SIGMA = ["a", "b"]
RULE = (
    "case = expression tree of depth <=3 over lift / from_string / from_strings / zero / one / random "
    "automaton leaves (epsilon arcs, initial-is-final, several initial and final states) and "
    "+, *, star, kleene_plus, reverse, injective rename, renumber; regime QQ or BOOL on the base class, "
    "FLOAT on the field class; every string up to length 3; non-trivial = some operand of a star or "
    "product has an epsilon arc or non-zero weight on the empty string, and some string has non-zero "
    "weight; in a third of the cases every operation is applied twice to the same operand objects (the second "
    "result is used), in a quarter every operand is evaluated and reversed before it is used, and every operand "
    "must still denote its own language afterwards; distinct = SHA-1 of the case"
)
ASSUMPTIONS = [
    "star is only applied where the series converges: the generator scales the operand so that its weight on the empty string is < 3/4 (QQ/FLOAT)",
    "leaf automata are convergent by construction (outgoing weight <= 3/4 per state)",
    "rename functions are injective",
]


def examples(tier):
    return 4800 if tier == "quick" else 48000


def strings():
    return gen.all_strings(SIGMA, N)


# ---- denotation -----------------------------------------------------------------------------


def den(M, e, leafs):
    "language of expression e as dict xs -> weight for |xs| <= N"
    op = e[0]
    S = strings()
    if op == "leaf":
        W = autoref.Weights(RA.from_case(M, leafs[e[1]]))
        return {xs: W(xs) for xs in S}
    if op == "lift":
        a, w = e[1], M.parse(e[2])
        key = () if a == "" else (a,)
        return {xs: (w if xs == key else M.zero) for xs in S}
    if op == "from_string":
        t = tuple(e[1])
        w = M.parse(e[3]) if len(e) > 3 and e[3] is not None else M.one
        return {xs: (w if xs == t else M.zero) for xs in S}
    if op == "from_strings":
        T = {tuple(x) for x in e[1]}
        return {xs: (M.one if xs in T else M.zero) for xs in S}
    if op == "zero":
        return {xs: M.zero for xs in S}
    if op == "one":
        return {xs: (M.one if xs == () else M.zero) for xs in S}
    if op == "scale":
        c = M.parse(e[1])
        A = den(M, e[2], leafs)
        return {xs: M.mul(c, A[xs]) for xs in S}
    if op == "+":
        A, B = den(M, e[1], leafs), den(M, e[2], leafs)
        return {xs: M.add(A[xs], B[xs]) for xs in S}
    if op == "*":
        A, B = den(M, e[1], leafs), den(M, e[2], leafs)
        return {xs: M.sum(M.mul(A[xs[:i]], B[xs[i:]]) for i in range(len(xs) + 1)) for xs in S}
    if op in ("star", "plus"):
        A = den(M, e[1], leafs)
        s0 = M.star(A[()])
        St = {}
        for xs in S:  # by increasing length
            acc = M.one if xs == () else M.zero
            for i in range(1, len(xs) + 1):
                acc = M.add(acc, M.mul(A[xs[:i]], St[xs[i:]]))
            St[xs] = M.mul(s0, acc)
        if op == "star":
            return St
        return {xs: M.sum(M.mul(A[xs[:i]], St[xs[i:]]) for i in range(len(xs) + 1)) for xs in S}
    if op == "reverse":
        A = den(M, e[1], leafs)
        return {xs: A[xs[::-1]] for xs in S}
    if op in ("rename", "renumber"):
        return den(M, e[-1], leafs)
    raise ValueError(op)


def build(M, K, e, leafs, cls, trace=None, twice=False, touch=False):
    """the same expression through the library.  Every intermediate automaton is recorded in
    `trace` (expression, object) so that the caller can check that using an automaton as an operand
    did not change it; with `twice` every operation is applied a second time to the same operand
    objects and the second result is the one used (A.star() must be star(A) every time)."""
    op = e[0]
    R = M.lib

    def sub(x):
        A = build(M, K, x, leafs, cls, trace, twice, touch)
        if touch:
            # the operand has been used before (evaluated, reversed): its memoised views exist
            A(("a",))
            A.reverse  # noqa: B018
        return A

    def result():
        if op == "leaf":
            return lambda: lib_wfsa(M, leafs[e[1]], cls)
        if op == "lift":
            return lambda: K.lift(e[1], M.to_lib(M.parse(e[2])), R=R)
        if op == "from_string":
            if len(e) > 3 and e[3] is not None:
                return lambda: K.from_string("".join(e[1]) if e[2] == "str" else tuple(e[1]), R, M.to_lib(M.parse(e[3])))
            return lambda: K.from_string("".join(e[1]) if e[2] == "str" else tuple(e[1]), R)
        if op == "from_strings":
            return lambda: K.from_strings(["".join(x) if e[2] == "str" else tuple(x) for x in e[1]], R)
        if op == "zero":
            A = sub(e[1])
            return lambda: A.zero if cls == "base" else K(R)
        if op == "one":
            A = sub(e[1])
            return lambda: A.one if cls == "base" else K.lift("", R.one, R=R)
        if op == "scale":
            A = sub(e[2])
            return lambda: K.lift("", M.to_lib(M.parse(e[1])), R=R) * A
        if op in ("+", "*"):
            A, B = sub(e[1]), sub(e[2])
            return (lambda: A + B) if op == "+" else (lambda: A * B)
        if op == "star":
            A = sub(e[1])
            return lambda: A.star()
        if op == "plus":
            A = sub(e[1])
            return lambda: A.kleene_plus()
        if op == "reverse":
            A = sub(e[1])
            return lambda: A.reverse
        if op == "rename":
            A = sub(e[2])
            return lambda: A.rename(renamer(e[1]))
        if op == "renumber":
            A = sub(e[1])
            return lambda: A.renumber
        raise ValueError(op)

    f = result()
    m = f()
    if twice:
        m = f()
    if trace is not None:
        trace.append((e, m))
    return m


# ---- generation -----------------------------------------------------------------------------


def _eps_weight(M, e, leafs):
    return den(M, e, leafs)[()]


@st.composite
def expr(draw, M, regime, leafs, depth):
    "returns an expression whose every star operand has epsilon-weight < 3/4 (field regimes)"
    if depth == 0 or draw(st.integers(0, 9)) < 2:
        kind = draw(st.sampled_from(["leaf", "leaf", "lift", "from_string", "from_strings", "zero", "one"]))
        if kind == "leaf":
            big = draw(st.integers(0, 7)) == 0  # now and then a larger operand with many initial / final states
            lf = draw(gen.automaton(regime=regime, max_states=6 if big else 3, max_arcs=8 if big else 5, min_states=5 if big else 1))
            if big and regime != "BOOL":
                for q in lf["states"]:
                    if not any(repr(s[0]) == repr(q) for s in lf["start"]):
                        lf["start"].append([q, "1/8"])
                    if not any(repr(s[0]) == repr(q) for s in lf["stop"]):
                        lf["stop"].append([q, "1/8"])
            leafs.append(lf)
            return ["leaf", len(leafs) - 1]
        if kind == "lift":
            w = "1" if regime == "BOOL" else draw(st.sampled_from(["1/2", "1/3", "1", "2/3"]))
            return ["lift", draw(st.sampled_from(SIGMA + [""])), w]
        if kind == "from_string":
            w = None if (regime == "BOOL" or draw(st.booleans())) else draw(st.sampled_from(["1/2", "1/3", "2/3", "1/4"]))
            return ["from_string", draw(st.lists(st.sampled_from(SIGMA), max_size=3)), draw(st.sampled_from(["str", "tuple"])), w]
        if kind == "from_strings":
            xs = draw(st.lists(st.lists(st.sampled_from(SIGMA), max_size=3), min_size=0, max_size=3, unique_by=tuple))
            return ["from_strings", xs, draw(st.sampled_from(["str", "tuple"]))]
        return [kind, ["lift", "a", "1"]]
    op = draw(st.sampled_from(["+", "*", "*", "star", "star", "plus", "plus", "reverse", "rename", "renumber"]))
    if op in ("+", "*"):
        return [op, draw(expr(M, regime, leafs, depth - 1)), draw(expr(M, regime, leafs, depth - 1))]
    sub = draw(expr(M, regime, leafs, depth - 1))
    if op in ("star", "plus"):
        if regime != "BOOL":
            e0 = _eps_weight(M, sub, leafs)
            e0 = Fraction(e0).limit_denominator(10**6) if not isinstance(e0, Fraction) else e0
            if e0 >= Fraction(3, 4):
                k = int(e0 * 2) + 2
                sub = ["scale", f"1/{k}", sub]
        return [op, sub]
    if op == "rename":
        return ["rename", draw(st.sampled_from(["tuple", "str", "frozen"])), sub]
    return [op, sub]


@st.composite
def strategy(draw, tier="quick"):
    regime, cls = draw(st.sampled_from([("QQ", "base"), ("QQ", "base"), ("BOOL", "base"), ("FLOAT", "field")]))
    M = model("QQ" if regime == "FLOAT" else regime)
    leafs = []
    e = draw(expr(M, regime if regime != "FLOAT" else "QQ", leafs, 3 if tier == "thorough" else draw(st.sampled_from([2, 3]))))
    for lf in leafs:
        lf["regime"] = regime
    return {"regime": regime, "cls": cls, "expr": e, "leafs": leafs, "twice": draw(st.integers(0, 2)) == 0, "touch": draw(st.integers(0, 3)) == 0}


def _ops(e, acc):
    acc.add(e[0])
    for x in e[1:]:
        if isinstance(x, list) and x and isinstance(x[0], str) and x[0] in OPS:
            _ops(x, acc)
    return acc


OPS = {"leaf", "lift", "from_string", "from_strings", "zero", "one", "scale", "+", "*", "star", "plus", "reverse", "rename", "renumber"}


def _interesting(M, e, leafs):
    "some operand of star/plus/* has an epsilon arc or non-zero weight on the empty string"
    if e[0] in ("star", "plus", "*"):
        for sub in e[1:]:
            if isinstance(sub, list):
                if not M.is_zero(den(M, sub, leafs)[()]):
                    return True
                if sub[0] == "leaf" and any(a[1] == "" for a in leafs[sub[1]]["arcs"]):
                    return True
    return any(_interesting(M, x, leafs) for x in e[1:] if isinstance(x, list) and x and isinstance(x[0], str) and x[0] in OPS)


def check(case, ctx):
    from genlm.grammar.wfsa import base, field_wfsa

    M = model(case["regime"])
    cls = case["cls"]
    K = base.WFSA if cls == "base" else field_wfsa.WFSA
    e, leafs = case["expr"], case["leafs"]
    want = den(M, e, leafs)
    ctx.cls("regime:" + case["regime"], "cls:" + cls, *("op:" + o for o in _ops(e, set())))
    ctx.nontrivial = _interesting(M, e, leafs) and any(not M.is_zero(w) for w in want.values())

    trace = []
    twice = bool(case.get("twice"))
    ctx.cls("ops_applied_twice" if twice else None)
    touch = bool(case.get("touch"))
    ctx.cls("operands_evaluated_first" if touch else None)
    m = ctx.call("build", build, M, K, e, leafs, cls, trace, twice, touch)
    if isinstance(m, LibRaised):
        return
    ref = ctx.call("read", lambda: autoref.Weights(RA.from_lib(M, m)))
    for xs in strings():
        if not isinstance(ref, LibRaised):
            ctx.evals += 1
            v = ref(xs)
            if not M.eq(v, want[xs]):
                ctx.fail("construct|neq", f"constructed automaton (reference-evaluated) xs={xs}: {M.show(v)}, algebra says {M.show(want[xs])}")
                ref = LibRaised(None)
        have = ctx.call("call", m, xs)
        if not ctx.eq("call", M, have, want[xs], what=f"xs={xs}"):
            break

    # every automaton that served as an operand still denotes its own language afterwards
    # ((A+B)(x) = A(x)+B(x) is a statement about A and B as they are after the construction too)
    for sub_e, obj in trace[:-1]:
        if sub_e[0] in ("lift", "zero", "one"):
            continue
        w = den(M, sub_e, leafs)
        r = ctx.call("read_operand", lambda: autoref.Weights(RA.from_lib(M, obj)))
        if isinstance(r, LibRaised):
            continue
        bad = next((xs for xs in strings() if not M.eq(r(xs), w[xs])), None)
        ctx.evals += 1
        if bad is not None:
            ctx.fail("operand|changed", f"operand {sub_e[0]} no longer denotes its language after being used: xs={bad}: {M.show(r(bad))}, was {M.show(w[bad])}")
            break
