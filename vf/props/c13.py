"""
C13  Determinisation, minimisation, pushing and trimming preserve the language.

Oracle: exact equivalence over Q for *all strings at once* (vf.autoref.equivalent: forward space of
the difference automaton, Gaussian elimination over Fractions) plus structural predicates on the
result read as data.  Inputs: acyclic automata (subset construction terminates - a theorem - so an
exception or a blown call budget is a failure to deliver) and cyclic deterministic automata.
"""

from fractions import Fraction

from hypothesis import strategies as st

from vf import autoref, gen
from vf.autoref import RA
from vf.build import lib_wfsa
from vf.core import LibRaised
from vf.sched import CallBudget
from vf.semi import model

ID = "C13"
RULE = (
    "case = QQ automaton, either acyclic (<=4 states, <=8 arcs, epsilon arcs, several initial "
    "states, shared prefixes, unequal weights, dead and unreachable states), or cyclic and "
    "deterministic, or (push / trim / trim_vals only) any automaton with cycles, epsilon cycles and epsilon "
    "self-loops; symbols 'a','b' or ints incl. 0, sparse ints, the empty tuple, a tuple; determinize, min_det "
    "(acyclic only), push, trim, trim_vals are applied and the "
    "result is compared with the input by exact equivalence over Q, plus: single initial state, <=1 "
    "arc per (state, symbol), no epsilon arc (determinize/min_det); per-state mass 1 (push); every "
    "state on an accepting path (trim, trim_vals); non-trivial = the input is not already "
    "deterministic and its language is non-empty; distinct = SHA-1 of the case"
)
ASSUMPTIONS = [
    "termination is only claimed where it is a theorem (acyclic inputs, deterministic inputs); budget 20000 calls of _powerarcs",
    "minimality of min_det is not asserted (not stated)",
    "weights are positive rationals, so value-based and structural liveness coincide",
]


def examples(tier):
    return 2400 if tier == "quick" else 24000


@st.composite
def det_cyclic(draw):
    n = draw(st.integers(1, 3))
    arcs = []
    for q in range(n):
        outs = [(a, draw(st.integers(0, n - 1))) for a in ["a", "b"] if draw(st.booleans())]
        for a, r in outs:
            arcs.append([q, a, r, gen.F(Fraction(draw(st.sampled_from([1, 2, 3])), 4 * max(1, len(outs))))])
    stop = [[q, draw(st.sampled_from(["1", "1/2", "1/3"]))] for q in range(n) if draw(st.booleans())]
    return {"states": list(range(n)), "start": [[0, draw(st.sampled_from(["1", "2", "1/2"]))]], "stop": stop, "arcs": arcs, "regime": "QQ", "acyclic": False, "det": True}


@st.composite
def strategy(draw, tier="quick"):
    k = draw(st.integers(0, 9))
    alphabet = draw(st.sampled_from(gen.ALPHABETS))
    if k < 2:
        m = draw(det_cyclic())
    elif k < 4:
        # any automaton (cycles, epsilon cycles and epsilon self-loops): pushing and trimming do not
        # need determinisation to terminate
        m = draw(gen.automaton(regime="QQ", acyclic=False, max_states=4, alphabet=alphabet))
        m["general"] = True
    else:
        big = draw(st.integers(0, 4)) == 0
        m = draw(gen.automaton(regime="QQ", acyclic=True, max_states=(6 if big else 4) if tier == "quick" else 6, max_arcs=12 if big else 8, alphabet=alphabet))
    return {"m": m}


def is_det(A):
    if len(A.start) > 1:
        return False
    seen = set()
    for q, a, r, w in A.arcs:
        if a == "" or (q, a) in seen:
            return False
        seen.add((q, a))
    return True


def live_states(A):
    "states on an accepting path (non-zero weights only)"
    M = A.M
    succ, pred = {}, {}
    for q, a, r, w in A.arcs:
        if not M.is_zero(w):
            succ.setdefault(q, set()).add(r)
            pred.setdefault(r, set()).add(q)

    def clo(roots, nb):
        seen, stack = set(roots), list(roots)
        while stack:
            u = stack.pop()
            for v in nb.get(u, ()):
                if v not in seen:
                    seen.add(v)
                    stack.append(v)
        return seen

    return clo(set(A.start), succ) & clo(set(A.stop), pred)


def check(case, ctx):
    c = case["m"]
    M = model("QQ")
    A = RA.from_case(M, c)
    cl = gen.classify_automaton(c)
    ctx.cls(*cl, "det_cyclic" if c.get("det") else "general_cyclic" if c.get("general") else "acyclic", "alphabet:" + repr(c.get("alphabet", ["a", "b"])))
    nonempty = autoref.total(A) != 0
    ctx.nontrivial = nonempty and not is_det(A)

    ops = ["push", "trim", "trim_vals"] if c.get("general") else ["determinize", "push", "trim", "trim_vals"] + ([] if c.get("det") else ["min_det"])
    for op in ops:
        m = ctx.call("build", lib_wfsa, M, c, "base")
        if isinstance(m, LibRaised):
            return

        def run(m=m, op=op):
            with CallBudget({"_powerarcs"}, 20000):
                return getattr(m, op)

        try:
            res = ctx.call(op, run)
        except CallBudget.Exceeded as e:
            ctx.fail(f"{op}|budget", f"{op} did not terminate within the call budget on an input where termination is a theorem: {e}")
            continue
        if isinstance(res, LibRaised):
            continue
        B = ctx.call(op + ".read", RA.from_lib, M, res)
        if isinstance(B, LibRaised):
            continue
        w = autoref.equivalent(A, B)
        ctx.check(
            f"{op}|language",
            w is None,
            lambda: f"{op}: string {w} has weight {autoref.weight(B, w)} in the result, {autoref.weight(A, w)} in the input",
        )
        if op in ("determinize", "min_det"):
            ctx.check(f"{op}|initial", len(B.start) <= 1, lambda: f"{op}: {len(B.start)} initial states")
            ctx.check(f"{op}|eps", all(a != "" for _, a, _, _ in B.arcs), f"{op}: epsilon arc in the result")
            seen, dup = set(), None
            for q, a, r, wt in B.arcs:
                if (q, a) in seen:
                    dup = (B.names[q], a)
                seen.add((q, a))
            ctx.check(f"{op}|deterministic", dup is None, lambda: f"{op}: two arcs for {dup}")
        if op == "push":
            b = autoref.backward(A)
            names = {q: i for i, q in enumerate(A.names)}
            mass = {}
            for q, a, r, wt in B.arcs:
                mass[q] = mass.get(q, Fraction(0)) + wt
            for q, wt in B.stop.items():
                mass[q] = mass.get(q, Fraction(0)) + wt
            bad = None
            for qi, qn in enumerate(B.names):
                if qn in names and b[names[qn]] != 0 and mass.get(qi, Fraction(0)) != 1:
                    bad = (qn, mass.get(qi, Fraction(0)))
            ctx.check("push|stochastic", bad is None, lambda: f"push: state {bad[0]} has outgoing + final mass {bad[1]}")
        if op in ("trim", "trim_vals"):
            live = live_states(B)
            dead = [B.names[q] for q in range(B.n) if q not in live]
            ctx.check(f"{op}|live", not dead, lambda: f"{op}: states {dead} are not on an accepting path")
