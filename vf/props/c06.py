"""
C06  Normal-form transformations preserve the weighted language.

Oracle: the *reference* parser on both sides -- inside(T(G), xs) == inside(G, xs) for all short xs,
where T(G) is read back from the library object as plain data.  A parser defect can therefore
neither mask nor fake a transformation defect.  In FREE the comparison is equality of polynomials.
"""

from hypothesis import strategies as st

from vf import gen, xform
from vf.build import lib_cfg
from vf.cfgref import RG, Inside
from vf.core import LibRaised
from vf.semi import model

ID = "C06"
RULE = (
    "case = (grammar, regime, rule rotation, four chains of two transformations); every single "
    "transformation with every option, unfold at every admissible (rule, position), and the drawn "
    "chains are applied; inside(T(G),xs) is compared with inside(G,xs) for all strings up to length 3 "
    "with the reference evaluator on both sides; non-trivial = some non-empty string has non-zero "
    "weight and at least one transformation changed the rule multiset; distinct = SHA-1 of the case"
)
ASSUMPTIONS = [
    "reference: vf.cfgref.Inside on both sides (the transformed grammar is read as data: rules, S, V); the library's own evaluator T(cfg)(xs) is a secondary observation on the chains and on three cheap transformations",
    "rename uses injective functions only",
    "QQ grammars have no nullable cycle, FREE grammars no cyclic derivation (generator repair); FLOAT-like regimes are convergent by construction, rtol 1e-8",
]
REGIMES = ["BOOL", "MT", "FREE", "QQ", "FLOAT", "FLOAT", "REAL", "MP"]


def examples(tier):
    return 960 if tier == "quick" else 12000


@st.composite
def strategy(draw, tier="quick"):
    g = draw(gen.grammar(regimes=REGIMES, symbols=True, signed=True, **gen.size(tier)))
    return {
        "g": g,
        "perm": draw(st.sampled_from([0, 0, 2, "rev"])),
        "chains": [[draw(st.sampled_from(xform.SINGLE)), draw(st.sampled_from(xform.SINGLE))] for _ in range(4)],
        "pick": draw(st.integers(0, 30)),
        "extra": draw(gen.derived_strings(g, k=2, maxlen=5)) if draw(st.integers(0, 3)) == 0 else [],
        "n": 3,
    }


def rule_multiset(cfg):
    return sorted((repr(r.head), repr(r.body), repr(r.w)) for r in cfg.rules)


def apply_named(ctx, cfg, name, pick, key):
    if name == "unfold":
        sites = xform.unfold_sites(cfg)
        if not sites:
            return None
        return ctx.call(key, xform.apply, cfg, name, sites[pick % len(sites)])
    return ctx.call(key, xform.apply, cfg, name)


def lib_eval(ctx, M, key, new, strings, want, what):
    """secondary observation, as the statement puts it (T(cfg)(xs)): the library's own evaluator on the
    transformed grammar object; a failure here with a quiet reference evaluation points at the
    evaluator's own normal-form pipeline on that kind of grammar (see C02)"""
    if new is None or isinstance(new, LibRaised):
        return
    for xs in strings:
        if len(xs) > 2:
            continue
        have = ctx.call(f"{key}.lib_eval", new, xs)
        if not ctx.eq(f"{key}.lib_eval", M, have, want[xs], what=f"{what}: T(cfg)({xs})"):
            return


def compare(ctx, M, key, new, strings, want, what):
    if new is None or isinstance(new, LibRaised):
        return
    ref = Inside(RG.from_lib(M, new))
    for xs in strings:
        ctx.evals += 1
        have = ref(xs)
        if not M.eq(have, want[xs]):
            ctx.fail(f"{key}|neq", f"{what}: xs={xs} T(G) gives {M.show(have)}, G gives {M.show(want[xs])}")
            return


def check(case, ctx):
    g = case["g"]
    M = model(g["regime"])
    G = RG.from_case(M, g)
    ref = Inside(G)
    ctx.cls(*gen.classify(g), "regime:" + g["regime"])
    cfg = ctx.call("build", lib_cfg, M, g, case.get("perm"))
    strings = gen.all_strings(g["V"], case.get("n", 3))
    from vf.cfgref import sym

    longer = [tuple(sym(y) for y in s) for s in case.get("extra", [])]
    strings = strings + [s for s in dict.fromkeys(longer) if s not in set(strings)]
    want = {xs: ref(xs) for xs in strings}
    base = rule_multiset(cfg)
    changed = False

    for name in xform.SINGLE:
        if name == "unfold":
            for site in xform.unfold_sites(cfg):
                new = ctx.call("unfold", xform.apply, cfg, "unfold", site)
                if not isinstance(new, LibRaised):
                    changed = changed or rule_multiset(new) != base
                compare(ctx, M, "unfold", new, strings, want, f"unfold{site}")
            continue
        new = apply_named(ctx, cfg, name, 0, name)
        if new is not None and not isinstance(new, LibRaised):
            changed = changed or rule_multiset(new) != base
        compare(ctx, M, name, new, strings, want, name)
        if name in ("separate_terminals", "separate_start", "trim"):
            lib_eval(ctx, M, name, new, strings, want, name)

    for t1, t2 in case.get("chains") or [case["chain"]]:
        mid = apply_named(ctx, cfg, t1, case.get("pick", 0), t1)
        if mid is not None and not isinstance(mid, LibRaised):
            new = apply_named(ctx, mid, t2, case.get("pick", 0) // 3, t2)
            compare(ctx, M, f"chain:{t2}", new, strings, want, f"{t1} then {t2}")
            lib_eval(ctx, M, f"chain:{t2}", new, strings, want, f"{t1} then {t2}")
            ctx.cls("chain")

    ctx.nontrivial = changed and any(len(xs) > 0 and not M.is_zero(want[xs]) for xs in strings)
