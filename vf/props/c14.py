"""
C14  Real-weighted equivalence test and minimisation are exact.

Ground truth: exact equivalence over Q (vf.autoref.equivalent) and the exact Hankel rank over Q
(vf.autoref.hankel_rank) on the rational values of the float weights.  Pairs are made equivalent *by
construction* (state permutation, dead / unreachable states, state splitting, similarity transform
by a unimodular integer matrix, epsilon introduction, start/stop rescaling) or perturbed in one
live weight.  Termination of `min` is checked with a deterministic call budget.
"""

import math
from fractions import Fraction

from hypothesis import strategies as st

from vf import autoref, gen
from vf.autoref import RA
from vf.build import lib_wfsa
from vf.core import LibRaised
from vf.lin import HarnessError
from vf.sched import CallBudget
from vf.semi import model

ID = "C14"
RULE = (
    "case = (float-weighted field automaton, <=4 states, symbols {a,b}, dyadic weights k/8 (pairs) or "
    "k/10 (single), epsilon arcs, useless states; a transformation: perm / dead / split / similarity "
    "/ eps / rescale (equivalent by construction) or perturb (one live weight + 1/8..1/2) or none); "
    "checks: counterexample is None <=> exact equivalence over Q; a returned witness really "
    "differs with the reported weights; == and hash agree; min terminates within 5000 calls of proj, "
    "is equivalent on all strings up to 2n+1 (tol 1e-6) and min.dim == exact Hankel rank; "
    "non-trivial = a perturbed pair, or Hankel rank < number of states; distinct = SHA-1 of the case"
)
ASSUMPTIONS = [
    "'well-conditioned' made concrete: weights are small dyadic rationals (exact in binary floating point) for pairs; a non-equivalent pair is only used when its shortest witness differs by > 1e-4 relative; the non-zero singular values of the Hankel block over strings <= n exceed 1e-3 sigma_max (else the case is counted as discarded)",
    "ground truth: Tzeng/Schuetzenberger over Fractions",
]
TOL = 1e-6


def examples(tier):
    return 1600 if tier == "quick" else 24000


@st.composite
def strategy(draw, tier="quick"):
    kind = draw(st.sampled_from(["perm", "dead", "split", "similarity", "eps", "rescale", "perturb", "perturb", "perturb", "none", "none", "newsym", "deadsym"]))
    special = draw(st.integers(0, 11))
    big = draw(st.integers(0, 5)) == 0
    m = draw(gen.automaton(regime="QQ", max_states=6 if big else 4, max_arcs=10 if big else 7, pool="int", boost=(special > 2)))
    # dyadic weights for pairs, tenths for single automata
    dy = ["1/8", "1/4", "3/8", "1/2", "5/8", "3/4", "1"]
    te = ["1/10", "1/5", "3/10", "2/5", "1/2", "7/10"]
    pool = te if kind == "none" and draw(st.booleans()) else dy
    for a in m["arcs"]:
        # epsilon arcs stay small so that every epsilon closure converges (row sums of E <= 10/16)
        a[3] = "1/16" if a[1] == "" else draw(st.sampled_from(pool))  # <= 10 epsilon arcs per state: row sums of E stay below 1
    for s in m["start"] + m["stop"]:
        s[1] = draw(st.sampled_from(pool + ["2"]))
    if len(m["states"]) >= 2 and draw(st.integers(0, 7)) == 0:
        # a symbol that labels exactly one self-loop on every state (a diagonal transition matrix)
        m["arcs"] = [a for a in m["arcs"] if a[1] != "a"] + [[q, "a", q, draw(st.sampled_from(pool))] for q in m["states"]]
        m["diagonal_symbol"] = True
    if draw(st.integers(0, 3)) == 0:
        # signed weights (the statement says real-weighted): flip the sign of some non-epsilon weights
        for a in m["arcs"]:
            if a[1] != "" and draw(st.integers(0, 2)) == 0:
                a[3] = F(-Fraction(a[3]))
        for s in m["start"] + m["stop"]:
            if draw(st.integers(0, 2)) == 0:
                s[1] = F(-Fraction(s[1]))
        m["signed"] = True
    if special == 0:
        m["start"] = []
    elif special == 1:
        m["stop"] = []
    elif special == 2:
        m["arcs"] = [a for a in m["arcs"] if a[1] == ""]
    return {"m": m, "kind": kind, "k": draw(st.integers(0, 20)), "d": draw(st.sampled_from(["1/8", "1/4", "1/2", "-1/8"]))}


# ---- transformations on case data (Fractions as strings) ---------------------------------------


def F(x):
    return str(Fraction(x))


def transform(m, kind, k, d):
    import copy

    b = copy.deepcopy(m)
    n = len(b["states"])
    if kind == "none":
        return None
    if kind == "perm":
        perm = {q: (q * 7 + 3 + k) % 1000 + 10 for q in b["states"]}
        b["states"] = [perm[q] for q in b["states"]]
        b["start"] = [[perm[q], w] for q, w in b["start"]][::-1]
        b["stop"] = [[perm[q], w] for q, w in b["stop"]]
        b["arcs"] = [[perm[q], a, perm[r], w] for q, a, r, w in b["arcs"]][::-1]
        return b
    if kind == "dead":
        dead, unreach = 100, 101
        b["states"] += [dead, unreach]
        if b["states"]:
            q = b["states"][k % n]
            b["arcs"].append([q, "a", dead, "1/2"])
            b["arcs"].append([dead, "b", dead, "1/4"])
            b["arcs"].append([unreach, "a", q, "1/2"])
            b["stop"].append([unreach, "1"])
        return b
    if kind == "split":
        q = b["states"][k % n]
        q2 = 200
        b["states"].append(q2)
        arcs = []
        for p, a, r, w in b["arcs"]:
            srcs = [p, q2] if p == q else [p]
            for s in srcs:
                if r == q:
                    arcs.append([s, a, q, F(Fraction(w) / 2)])
                    arcs.append([s, a, q2, F(Fraction(w) / 2)])
                else:
                    arcs.append([s, a, r, w])
        b["arcs"] = arcs
        st_ = []
        for p, w in b["start"]:
            if p == q:
                st_ += [[q, F(Fraction(w) / 2)], [q2, F(Fraction(w) / 2)]]
            else:
                st_.append([p, w])
        b["start"] = st_
        b["stop"] += [[q2, w] for p, w in b["stop"] if p == q]
        return b
    if kind == "rescale":
        b["start"] = [[q, F(Fraction(w) * 2)] for q, w in b["start"]]
        b["stop"] = [[q, F(Fraction(w) / 2)] for q, w in b["stop"]]
        return b
    if kind == "eps":
        if not b["arcs"]:
            return b
        i = k % len(b["arcs"])
        q, a, r, w = b["arcs"][i]
        mid = 300
        b["states"].append(mid)
        b["arcs"][i] = [q, a, mid, w]
        b["arcs"].append([mid, "", r, "1"])
        return b
    if kind == "similarity":
        # only on epsilon-free data: alpha' = alpha P^-1, M' = P M P^-1, beta' = P beta, P = I + e_i e_j^T
        if n < 2 or any(a[1] == "" for a in b["arcs"]):
            return transform(m, "perm", k, d)
        S = b["states"]
        i, j = S[k % n], S[(k // n + 1 + k % n) % n]
        if i == j:
            j = S[(S.index(i) + 1) % n]
        s = 1 if k % 2 == 0 else -1
        # P = I + s e_i e_j^T ; P^-1 = I - s e_i e_j^T
        alpha = {q: Fraction(0) for q in S}
        for q, w in b["start"]:
            alpha[q] += Fraction(w)
        beta = {q: Fraction(0) for q in S}
        for q, w in b["stop"]:
            beta[q] += Fraction(w)
        Ms = {}
        for q, a, r, w in b["arcs"]:
            Ms.setdefault(a, {})
            Ms[a][(q, r)] = Ms[a].get((q, r), Fraction(0)) + Fraction(w)
        # alpha P^-1 : column j gets  alpha_j - s alpha_i
        alpha[j] = alpha[j] - s * alpha[i]
        # P beta : row i gets beta_i + s beta_j
        beta[i] = beta[i] + s * beta[j]
        arcs = []
        for a, Mx in Ms.items():
            get = lambda q, r: Mx.get((q, r), Fraction(0))  # noqa: E731
            # PM: row i += s * row j
            PM = {(q, r): get(q, r) + (s * get(j, r) if q == i else 0) for q in S for r in S}
            # (PM) P^-1: column j -= s * column i
            out = {(q, r): PM[(q, r)] - (s * PM[(q, i)] if r == j else 0) for q in S for r in S}
            for (q, r), w in out.items():
                if w != 0:
                    arcs.append([q, a, r, F(w)])
        b["arcs"] = arcs
        b["start"] = [[q, F(w)] for q, w in alpha.items() if w != 0]
        b["stop"] = [[q, F(w)] for q, w in beta.items() if w != 0]
        return b
    if kind in ("newsym", "deadsym"):
        # an arc labelled with a symbol the other automaton does not know: between two live states
        # (the languages differ on a string containing it) or into a fresh dead state (equivalent)
        A = RA.from_case(model("QQ"), m)
        from vf.props.c13 import live_states

        live = sorted(live_states(A))
        if not live:
            return b
        q = A.names[live[k % len(live)]]
        if kind == "newsym":
            r = A.names[live[(k // 3) % len(live)]]
            b["arcs"].append([q, "c", r, "1/2"])
        else:
            b["states"].append(400)
            b["arcs"].append([q, "c", 400, "1/2"])
            b["arcs"].append([400, "a", 400, "1/4"])
        return b
    if kind == "perturb":
        # change one weight that lies on an accepting path
        A = RA.from_case(model("QQ"), m)
        from vf.props.c13 import live_states

        live = live_states(A)
        names = A.names
        cands = [("arc", i) for i, (q, a, r, w) in enumerate(A.arcs) if q in live and r in live]
        cands += [("start", i) for i, (q, w) in enumerate(b["start"]) if names.index(q) in live]
        cands += [("stop", i) for i, (q, w) in enumerate(b["stop"]) if names.index(q) in live]
        if not cands:
            return b
        what, i = cands[k % len(cands)]
        if what == "arc":
            b["arcs"][i][3] = F(Fraction(b["arcs"][i][3]) + Fraction(d))
        else:
            b[what][i][1] = F(Fraction(b[what][i][1]) + Fraction(d))
        return b
    raise ValueError(kind)


def decode(w):
    out = []
    while w != ():
        a, w = w
        out.append(a)
    return tuple(out)


def float_case(c):
    "the exact rational value of each float weight (what the library actually sees)"
    import copy

    c = copy.deepcopy(c)
    for a in c["arcs"]:
        a[3] = F(Fraction(float(Fraction(a[3]))))
    for s in c["start"] + c["stop"]:
        s[1] = F(Fraction(float(Fraction(s[1]))))
    return c


def well_conditioned(A, rank, n, sigma=("a", "b")):
    import numpy as np

    W = autoref.Weights(A)
    S = gen.all_strings(list(sigma), min(n, 3 if len(sigma) <= 2 else 2))
    H = np.array([[float(W(u + v)) for v in S] for u in S])
    sv = np.linalg.svd(H, compute_uv=False)
    if rank == 0:
        return True
    if len(sv) < rank or sv[0] == 0:
        return False
    return sv[rank - 1] > 1e-3 * sv[0]


def _sigma(*cases):
    return sorted({a[1] for c in cases for a in c["arcs"] if a[1] != ""} | {"a", "b"})


def check_min(ctx, tag, cm, mA, A):
    "min terminates, has exactly Hankel-rank many states and the same language"
    rank = autoref.hankel_rank(A)
    if rank < A.n:
        ctx.nontrivial = True
        ctx.cls("rank<states")
    sig = _sigma(cm)
    if not well_conditioned(A, rank, A.n, sig):
        ctx.cls("discarded:ill_conditioned")
        return

    def run():
        with CallBudget({"proj"}, 5000):
            return mA.min

    try:
        mn = ctx.call("min", run)
    except CallBudget.Exceeded as e:
        ctx.fail("min|budget", f"min did not return within the call budget: {e}")
        return
    if isinstance(mn, LibRaised):
        return
    ctx.check("min|dim", mn.dim == rank, lambda: f"[{tag}] min has {mn.dim} states, exact Hankel rank is {rank} (input {A.n} states)")
    W = autoref.Weights(A)
    for xs in gen.all_strings(sig, min(2 * A.n + 1, 5 if len(sig) <= 2 else 4)):
        have = ctx.call("min.call", mn, xs)
        if isinstance(have, LibRaised):
            break
        want = float(W(xs))
        if not ctx.check("min|language", isinstance(have, (int, float)) and not math.isnan(have) and abs(have - want) <= TOL * max(1.0, abs(want)), lambda: f"[{tag}] min(xs={xs}) = {have}, input automaton gives {want}"):
            break


def check_equiv(ctx, tag, mA, mB, A, B, wit):
    "A.counterexample(B), A == B and hash against the exact verdict `wit` (None = equivalent)"
    WA, WB = autoref.Weights(A), autoref.Weights(B)

    def run_ce():
        with CallBudget({"proj"}, 5000):
            return mA.counterexample(mB)

    ce = ctx.call("counterexample", run_ce)
    if isinstance(ce, LibRaised):
        return
    if wit is None:
        ctx.check("counterexample|spurious", ce is None, lambda: f"[{tag}] equivalent automata, but counterexample {ce} was reported")
    else:
        ctx.check("counterexample|missed", ce is not None, lambda: f"[{tag}] automata differ on {wit} ({float(WA(wit))} vs {float(WB(wit))}) but no counterexample was found")
    if ce is not None:
        w, va, vb = ce
        xs = ctx.call("decode", decode, w)
        if not isinstance(xs, LibRaised):
            ta, tb = float(WA(xs)), float(WB(xs))
            ctx.check("counterexample|weights", abs(va - ta) <= TOL * max(1, abs(ta)) and abs(vb - tb) <= TOL * max(1, abs(tb)), lambda: f"[{tag}] counterexample {xs}: reported ({va}, {vb}), true weights ({ta}, {tb})")
            ctx.check("counterexample|differs", abs(ta - tb) > 1e-9, lambda: f"[{tag}] counterexample {xs} does not separate the automata: both give {ta}")

    def run_eq():
        with CallBudget({"proj"}, 5000):
            return mA == mB

    eq = ctx.call("__eq__", run_eq)
    if not isinstance(eq, LibRaised):
        ctx.check("eq|truth", bool(eq) == (wit is None), lambda: f"[{tag}] A == B is {eq}, exact equivalence is {wit is None} (witness {wit})")
        if eq:
            ha, hb = ctx.call("hash", hash, mA), ctx.call("hash", hash, mB)
            ctx.check("hash|eq", ha == hb, "equal automata with different hashes")


def check(case, ctx):
    Q = model("QQ")
    Fm = model("FLOAT")
    cA = float_case(case["m"])
    A = RA.from_case(Q, cA)
    ctx.cls("kind:" + case["kind"], "signed_weights" if case["m"].get("signed") else None, "diagonal_symbol" if case["m"].get("diagonal_symbol") else None, *gen.classify_automaton(case["m"]))
    cB = transform(case["m"], case["kind"], case["k"], case["d"])

    mA = ctx.call("build", lib_wfsa, Fm, case["m"], "field")
    if isinstance(mA, LibRaised):
        return
    check_min(ctx, "A", case["m"], mA, A)

    if cB is None:
        cB = case["m"]
    B = RA.from_case(Q, float_case(cB))
    mB = ctx.call("build", lib_wfsa, Fm, cB, "field")
    if isinstance(mB, LibRaised):
        return
    if case["kind"] != "none":
        # the transformed automaton (useless states, split states, signed similarity, extra symbol)
        check_min(ctx, "B", cB, mB, B)
    wit = autoref.equivalent(A, B)
    if wit is not None:
        va, vb = float(autoref.Weights(A)(wit)), float(autoref.Weights(B)(wit))
        if abs(va - vb) <= 1e-4 * max(1.0, abs(va), abs(vb)):
            ctx.cls("discarded:tiny_difference")
            return
        ctx.nontrivial = True
        ctx.cls("truth:different")
    else:
        ctx.cls("truth:equivalent")
    check_equiv(ctx, "A vs B", mA, mB, A, B, wit)
    if case["kind"] != "none":
        check_equiv(ctx, "B vs A", mB, mA, B, A, wit)
