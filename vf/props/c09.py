"""
C09  Grammar-transducer composition is relational composition.

Oracle: (cfg @ T)(y) = sum_x cfg(x) T(x, y) computed as the least solution of the Bar-Hillel matrix
equations of the grammar against the epsilon-free *cross-section* of T at y (vf.autoref builds the
cross-section and removes its epsilon moves by a matrix star).  The composed grammar built by the
library is read back as data and evaluated by the reference parser.
"""

from hypothesis import strategies as st

from vf import autoref, cfgref, gen
from vf.autoref import RA, RT
from vf.build import lib_cfg, lib_fst, lib_wfsa
from vf.cfgref import RG, Inside
from vf.core import LibRaised
from vf.semi import model

ID = "C09"
SIG = ["a", "b"]
RULE = (
    "case = (grammar with empty rules, <=3 nonterminals, <=6 rules; transducer <=3 states, <=5 arcs "
    "with epsilon on either tape, eps:eps, cycles, dead states, several initial/final; an acceptor; "
    "regime FLOAT / BOOL of any shape or QQ with non-recursive grammar and acyclic machines); output "
    "strings up to length 2: (cfg@T) read as data and reference-evaluated vs sum_x cfg(x) T(x,y); the "
    "other argument order T@cfg; cfg@acceptor = pointwise product; total of cfg@x = cfg(x); "
    "truncate_length(n) keeps exactly the strings <= n; non-trivial = some composed value is non-zero "
    "and the transducer has an epsilon on some tape; distinct = SHA-1 of the case"
)
ASSUMPTIONS = [
    "convergence by construction for grammar and machines (FLOAT); QQ only where every sum is finite",
    "FLOAT rtol 1e-8; QQ / BOOL exact",
]


def examples(tier):
    return 1440 if tier == "quick" else 12000


@st.composite
def strategy(draw, tier="quick"):
    regime = draw(st.sampled_from(["FLOAT", "FLOAT", "BOOL", "QQ"]))
    exact = regime == "QQ"
    g = draw(gen.grammar(regimes=[regime], shape="nonrecursive" if exact else None, max_nt=3, max_rules=6, max_terms=2, long_rate=0.15))
    big = draw(st.integers(0, 11)) == 0  # now and then a transducer with 8-9 states
    t = draw(gen.transducer(regime="QQ" if regime == "FLOAT" else regime, max_states=9 if big else 3, max_arcs=14 if big else 5, acyclic=exact or big, min_states=8 if big else 1))  # big ones are acyclic: the reference stays cheap
    if big:
        # chain the states so that most of them lie on accepting paths
        states = t["states"]
        for i in range(len(states) - 1):
            if not any(a[0] == states[i] and a[3] == states[i + 1] for a in t["arcs"]):
                lab = draw(st.sampled_from([["a", "a"], ["b", ""], ["", "b"], ["a", "b"], ["b", "a"]]))
                t["arcs"].append([states[i], lab[0], lab[1], states[i + 1], "1" if regime == "BOOL" else "1/8"])
        t["big"] = True
    a = draw(gen.automaton(regime="QQ" if regime == "FLOAT" else regime, max_states=3, max_arcs=5, acyclic=exact, pool="str"))
    t["regime"] = a["regime"] = regime
    return {"g": g, "t": t, "a": a, "n": draw(st.integers(0, 2))}


def check(case, ctx):
    g, ct, ca = case["g"], case["t"], case["a"]
    M = model(g["regime"])
    G = RG.from_case(M, g)
    ins = Inside(G)
    T = RT.from_case(M, ct)
    A = RA.from_case(M, ca)
    clt = gen.classify_automaton(ct)
    ctx.cls(*gen.classify(g), "regime:" + g["regime"], *("t:" + c for c in clt), "t:8+states" if ct.get("big") else None)
    cfg = ctx.call("build", lib_cfg, M, g)
    fst = ctx.call("build", lib_fst, M, ct)
    acc = ctx.call("build", lib_wfsa, M, ca, "base")
    if isinstance(cfg, LibRaised) or isinstance(fst, LibRaised) or isinstance(acc, LibRaised):
        return
    outs = gen.all_strings(SIG, 2)
    nz = False

    # ---- cfg @ fst : grammar over the output tape
    comp = ctx.call("matmul", lambda: cfg @ fst)
    if not isinstance(comp, LibRaised):
        ref = ctx.call("matmul.read", lambda: Inside(RG.from_lib(M, comp)))
        for y in outs:
            want = cfgref.compose_total(G, autoref.cross_section(T, "out", y))
            nz = nz or not M.is_zero(want)
            if not isinstance(ref, LibRaised):
                ctx.evals += 1
                have = ref(y)
                if not M.eq(have, want):
                    ctx.fail("matmul|neq", f"(cfg@fst) read as data, y={y}: {M.show(have)}; sum_x cfg(x) fst(x,y) = {M.show(want)}")
                    ref = LibRaised(None)
            if len(y) <= 1:
                ctx.eq("matmul.call", M, ctx.call("matmul.call", comp, y), want, what=f"y={y}")
    ctx.nontrivial = nz and bool({"eps_input", "eps_output", "eps:eps"} & clt)

    # ---- fst @ cfg : grammar over the input tape
    comp2 = ctx.call("rmatmul", lambda: fst @ cfg)
    if not isinstance(comp2, LibRaised):
        ref = ctx.call("rmatmul.read", lambda: Inside(RG.from_lib(M, comp2)))
        for x in outs:
            if isinstance(ref, LibRaised):
                break
            want = cfgref.compose_total(G, autoref.cross_section(T, "in", x))
            ctx.evals += 1
            have = ref(x)
            if not M.eq(have, want):
                ctx.fail("rmatmul|neq", f"(fst@cfg) read as data, x={x}: {M.show(have)}; sum_y fst(x,y) cfg(y) = {M.show(want)}")
                break

    # ---- acceptor: pointwise product
    pa = ctx.call("matmul_acceptor", lambda: cfg @ acc)
    if not isinstance(pa, LibRaised):
        WA = autoref.Weights(A)
        ref = ctx.call("matmul_acceptor.read", lambda: Inside(RG.from_lib(M, pa)))
        for x in gen.all_strings(SIG, 3):
            if isinstance(ref, LibRaised):
                break
            want = M.mul(ins(x), WA(x))
            ctx.evals += 1
            have = ref(x)
            if not M.eq(have, want):
                ctx.fail("matmul_acceptor|neq", f"(cfg@acceptor) at {x}: {M.show(have)}, cfg(x)*A(x) = {M.show(want)}")
                break

    # ---- plain string / tuple: the total weight of cfg @ x is cfg(x)
    for x in gen.all_strings(g["V"], 2):
        for form in (x, "".join(x)) if x else (x,):
            px = ctx.call("matmul_string", lambda: cfg @ form)
            if isinstance(px, LibRaised):
                continue
            Gx = RG.from_lib(M, px)
            ctx.evals += 1
            tot = cfgref.total(Gx)[Gx.S]
            if not M.eq(tot, ins(x)):
                ctx.fail("matmul_string|neq", f"total weight of cfg @ {form!r} is {M.show(tot)}, cfg(x) = {M.show(ins(x))}")
            if g["regime"] == "FLOAT" and len(x) <= 1:
                ctx.eq("matmul_string.treesum", M, ctx.call("matmul_string.treesum", px.treesum), ins(x), what=f"x={x}")

    # ---- length truncation
    n = case.get("n", 1)
    tr = ctx.call("truncate_length", cfg.truncate_length, n)
    if not isinstance(tr, LibRaised):
        ref = ctx.call("truncate_length.read", lambda: Inside(RG.from_lib(M, tr)))
        for x in gen.all_strings(g["V"], n + 1):
            if isinstance(ref, LibRaised):
                break
            want = ins(x) if len(x) <= n else M.zero
            ctx.evals += 1
            have = ref(x)
            if not M.eq(have, want):
                ctx.fail("truncate_length|neq", f"truncate_length({n}) at {x}: {M.show(have)} want {M.show(want)}")
                break
