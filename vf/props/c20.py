"""
C20  Local normalisation yields the proportional proper grammar; EOS wrapping.

Oracles: reference total / inside on the input grammar and, as data, on the grammars the library
returns (rule sums per head, total weight one, string weights divided by Z; add_EOS by the
reference evaluator on every string over V u {EOS} up to length 4).
"""

from hypothesis import strategies as st

from vf import gen
from vf.build import lib_cfg
from vf.cfgref import RG, Inside, total
from vf.core import LibRaised
from vf.semi import model

ID = "C20"
RULE = (
    "case = (convergent Float grammar with recursion, nullary/unary rules and useless "
    "nonterminals, rule rotation; for add_EOS also BOOL/QQ/FREE/MT grammars); checks: per head with "
    "Z>0 the rule weights of locally_normalize sum to 1, its total weight is 1, "
    "inside(ln(G),xs)*Z(G) == inside(G,xs) for |xs|<=3; add_EOS(G) evaluated by the reference on all "
    "strings over V+EOS up to length 4; non-trivial = Z not in {0,1} (normalisation) or a non-empty "
    "language (EOS); distinct = SHA-1 of the case"
)
ASSUMPTIONS = [
    "finite positive total weight is guaranteed by construction (DESIGN 4.2)",
    "float tolerance rtol 1e-8; add_EOS in exact regimes compared exactly",
]
EOS = "▪"


def examples(tier):
    return 2000 if tier == "quick" else 20000


@st.composite
def strategy(draw, tier="quick"):
    regime = draw(st.sampled_from(["FLOAT", "FLOAT", "FLOAT", "BOOL", "QQ", "FREE", "MT"]))
    # a third of the cases use PCFG-style weights (per-head sums exactly one), the library's main use
    g = draw(gen.grammar(regimes=[regime], weight_style=draw(st.sampled_from([None, None, 6])), **gen.size(tier)))
    # the end-of-sequence symbol is an argument of add_EOS: default, or a caller-chosen one
    eos = draw(st.sampled_from([None, None, "$", "</s>", 7, ["eos", 1]]))
    # earlier calls on the same grammar object with other solver arguments (locally_normalize forwards
    # its keyword arguments to agenda): a truncated or coarse run must not colour the default call
    warm = draw(st.sampled_from([None, None, None, {"maxiter": 1}, {"tol": 0.5}, {}]))
    return {"g": g, "perm": draw(st.sampled_from([0, 2, "rev"])), "eos": eos, "warm": warm}


def check(case, ctx):
    from genlm.grammar import add_EOS, locally_normalize

    g = case["g"]
    M = model(g["regime"])
    G = RG.from_case(M, g)
    ref = Inside(G)
    ctx.cls(*gen.classify(g), "regime:" + g["regime"])
    cfg = ctx.call("build", lib_cfg, M, g, case.get("perm"))
    strings = gen.all_strings(g["V"], 3)
    want = {xs: ref(xs) for xs in strings}

    # ---- EOS wrapping (any semiring)
    from vf.cfgref import sym

    EOS = globals()["EOS"] if case.get("eos") is None else sym(case["eos"])
    ctx.cls("eos:default" if case.get("eos") is None else "eos:custom")
    e = ctx.call("add_EOS", add_EOS, cfg) if case.get("eos") is None else ctx.call("add_EOS", add_EOS, cfg, EOS)
    if not isinstance(e, LibRaised):
        ctx.check("add_EOS|V", set(e.V) == set(cfg.V) | {EOS}, "add_EOS: vocabulary is not V + EOS")
        GE = RG.from_lib(M, e)
        refE = Inside(GE)
        VE = list(g["V"]) + [EOS]
        for ys in gen.all_strings(VE, 4 if len(VE) <= 3 else 3):
            have = refE(ys)
            if len(ys) >= 1 and ys[-1] == EOS and EOS not in ys[:-1]:
                exp = want.get(ys[:-1])
                if exp is None:
                    continue
            else:
                exp = M.zero
            ctx.evals += 1
            if not M.eq(have, exp):
                ctx.fail("add_EOS|neq", f"add_EOS: ys={ys} weight {M.show(have)} want {M.show(exp)}")
                break
        if any(not M.is_zero(w) for w in want.values()):
            ctx.nontrivial = True

    if g["regime"] != "FLOAT":
        return

    # ---- local normalisation (Float)
    Zs = total(G)
    Z = Zs[G.S]
    if case.get("warm") is not None:
        ctx.cls("warm:" + ",".join(sorted(case["warm"])) if case["warm"] else "warm:default")
        ctx.call("locally_normalize.warm", lambda: locally_normalize(cfg, **case["warm"]))
    ln = ctx.call("locally_normalize", locally_normalize, cfg)
    if isinstance(ln, LibRaised):
        return
    if Z > 1e-9:
        ctx.nontrivial = ctx.nontrivial and abs(Z - 1) > 1e-6
        sums = {}
        for r in ln.rules:
            sums[r.head] = sums.get(r.head, 0.0) + r.w
        for X in G.N:
            if Zs[X] > 1e-9:
                # the library's totals stop when an update is below 1e-12 (absolute), so a head
                # with a small total Z carries a relative error of about 1e-12 / Z
                ctx.check(
                    "ln|headsum",
                    abs(sums.get(X, 0.0) - 1) <= 1e-8 + 1e-10 / Zs[X],
                    lambda: f"locally_normalize: rules of {X} (Z={Zs[X]}) sum to {sums.get(X, 0.0)}",
                )
            else:
                ctx.check("ln|zerohead", X not in sums, lambda: f"locally_normalize: head {X} with Z=0 kept rules")
        GL = RG.from_lib(M, ln)
        ZL = total(GL)[GL.S]
        ctx.check("ln|total", abs(ZL - 1) <= 1e-8 + 1e-10 / min(v for v in Zs.values() if v > 1e-9), lambda: f"locally_normalize: total weight {ZL}")
        ts = ctx.call("ln.treesum", ln.treesum)
        if not isinstance(ts, LibRaised):
            ctx.check("ln.treesum", abs(ts - 1) <= 1e-8 + 1e-10 / min(v for v in Zs.values() if v > 1e-9), lambda: f"locally_normalize(cfg).treesum() = {ts}")
        refL = Inside(GL)
        for xs in strings:
            ctx.evals += 1
            have = refL(xs) * Z
            if not M.eq(have, want[xs]):
                ctx.fail("ln|neq", f"locally_normalize: xs={xs}: ln(G)(xs)*Z = {have}, G(xs) = {want[xs]}")
                break
        # observation named in the statement: locally_normalize(cfg)(xs) * cfg.treesum() vs cfg(xs)
        tz = ctx.call("treesum", cfg.treesum)
        for xs in strings[:13]:
            a = ctx.call("ln()", ln, xs)
            b = ctx.call("cfg()", cfg, xs)
            if isinstance(a, LibRaised) or isinstance(b, LibRaised) or isinstance(tz, LibRaised):
                break
            ctx.check("ln|lib", abs(a * tz - b) <= 1e-8 * max(1.0, abs(b)), lambda: f"ln(cfg)({xs})*treesum = {a * tz}, cfg({xs}) = {b}")
    else:
        ctx.cls("zero_total")
