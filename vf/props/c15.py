"""
C15  Algebraic path solver computes closures and least solutions.

Oracle: (I - A)^-1 by Gauss-Jordan elimination over Q (not Lehmann's algorithm), power sums in
Boolean / tropical models; mutual-reachability classes and edge-compatible order computed by the
harness for the block decomposition.
"""

from hypothesis import strategies as st

from fractions import Fraction

from vf import gen, lin
from vf.core import LibRaised
from vf.semi import model

ID = "C15"
RULE = (
    "case = weighted digraph with <=6 nodes (self loops, nested cycles, several components, isolated "
    "nodes; node names int/str), regime QQ with row sums <= 3/4, BOOL, MT or MP, and a right-hand "
    "side b; closure_scc_based, closure_reference, closure(), solve_left(b), solve_right(b) against "
    "the reference closure; blocks must be exactly the mutual-reachability classes, listed so that "
    "every cross-block edge goes from an earlier to a later block; buckets must agree with blocks; "
    "non-trivial = >=2 non-trivial SCCs (or one and a cross edge) and a non-zero cross-block closure entry; "
    "distinct = SHA-1 of the case"
)
ASSUMPTIONS = ["row sums <= 3/4 in QQ, so A* exists as a convergent series", "exact comparison in all regimes used here"]


def examples(tier):
    return 1200 if tier == "quick" else 24000


@st.composite
def strategy(draw, tier="quick"):
    regime = draw(st.sampled_from(["QQ", "QQ", "QQ", "BOOL", "MT", "MP"]))
    big = draw(st.integers(0, 9)) == 0
    n = draw(st.integers(8, 10)) if big else draw(st.integers(1, 6))
    names = draw(st.sampled_from([list(range(n)), ["n%d" % i for i in range(n)], [[i, "x"] for i in range(n)]]))
    k = draw(st.integers(0, 12))
    raw = [(draw(st.integers(0, n - 1)), draw(st.integers(0, n - 1))) for _ in range(k)]
    if big:
        # a ring through most of the nodes plus the random chords: one large strongly connected component
        m_ = draw(st.integers(7, n))
        raw += [(i, (i + 1) % m_) for i in range(m_)]
    by = {}
    for i, j in raw:
        by.setdefault(i, []).append(j)
    edges = []
    for i in sorted(by):
        ws = gen._arc_weights(draw, regime, len(by[i]), False)
        for j, w in zip(by[i], ws):
            edges.append([names[i], names[j], w])
    b = [[names[i], gen._end_weight(draw, regime)] for i in range(n) if draw(st.integers(0, 2)) == 0]
    signed = False
    if regime == "QQ" and draw(st.integers(0, 3)) == 0:
        # signed weights: parallel edges (the graph is built with G[i, j] += w) may cancel exactly
        edges = [[i, j, (gen.F(-Fraction(w)) if draw(st.integers(0, 2)) == 0 else w)] for i, j, w in edges]
        if edges and draw(st.booleans()):
            i, j, w = edges[draw(st.integers(0, len(edges) - 1))]
            edges.append([i, j, gen.F(-Fraction(w))])
        signed = True
    return {"regime": regime, "nodes": names, "edges": edges, "b": b, "signed": signed}


def check(case, ctx):
    from genlm.grammar.linear import WeightedGraph

    from vf.cfgref import sym

    M = model(case["regime"])
    nodes = [sym(x) for x in case["nodes"]]
    ix = {x: i for i, x in enumerate(nodes)}
    n = len(nodes)
    A = lin.zeros(M, n)
    for i, j, w in case["edges"]:
        A[ix[sym(i)]][ix[sym(j)]] = M.add(A[ix[sym(i)]][ix[sym(j)]], M.parse(w))
    S = lin.mat_star(M, A)
    bvec = [M.zero] * n
    for i, w in case["b"]:
        bvec[ix[sym(i)]] = M.add(bvec[ix[sym(i)]], M.parse(w))

    def mk():
        G = WeightedGraph(M.lib)
        for i, j, w in case["edges"]:
            G[sym(i), sym(j)] += M.to_lib(M.parse(w))
        G.N |= set(nodes)
        return G

    G = ctx.call("build", mk)
    if isinstance(G, LibRaised):
        return

    # mutual-reachability classes, by graph search over the edges (not over closure values: with
    # signed weights two paths may cancel).  An edge whose accumulated weight cancelled to exactly
    # zero may or may not count as an edge: both readings give a correct decomposition.
    def classes(edge):
        reach = [[i == j or edge(i, j) for j in range(n)] for i in range(n)]
        for k in range(n):
            for i in range(n):
                if reach[i][k]:
                    for j in range(n):
                        if reach[k][j]:
                            reach[i][j] = True
        return {i: frozenset(j for j in range(n) if reach[i][j] and reach[j][i]) for i in range(n)}

    listed = {(ix[sym(i)], ix[sym(j)]) for i, j, w in case["edges"]}
    comp = classes(lambda i, j: not M.is_zero(A[i][j]))
    comp_all = classes(lambda i, j: (i, j) in listed)
    comps = set(comp.values())
    cyclic = [c for c in comps if len(c) > 1 or not M.is_zero(A[min(c)][min(c)])]
    cross = any(comp[i] != comp[j] and not M.is_zero(A[i][j]) for i in range(n) for j in range(n))
    ctx.cls("regime:" + case["regime"], f"sccs_cyclic:{min(len(cyclic), 3)}", "cross_edges" if cross else None, "signed_weights" if case.get("signed") else None)
    ctx.nontrivial = len(cyclic) >= 2 or (len(cyclic) >= 1 and cross)

    zero = M.lib.zero
    for name in ("closure_scc_based", "closure_reference"):
        K = ctx.call(name, getattr(G, name))
        if isinstance(K, LibRaised):
            continue
        for i in range(n):
            for j in range(n):
                have = K[nodes[i], nodes[j]] if (nodes[i], nodes[j]) in K else zero
                if not ctx.eq(name, M, have, S[i][j], what=f"[{nodes[i]},{nodes[j]}]"):
                    break
    C = ctx.call("closure", G.closure)
    if not isinstance(C, LibRaised):
        for i in range(n):
            for j in range(n):
                ctx.eq("closure", M, C[nodes[i], nodes[j]], S[i][j], what=f"[{nodes[i]},{nodes[j]}]")

    bl = M.lib.chart()
    for i in range(n):
        if not M.is_zero(bvec[i]):
            bl[nodes[i]] = M.to_lib(bvec[i])
    want_l = lin.vec_mat(M, bvec, S)
    want_r = lin.mat_vec(M, S, bvec)
    for name, want in (("solve_left", want_l), ("solve_right", want_r)):
        sol = ctx.call(name, getattr(G, name), bl)
        if isinstance(sol, LibRaised):
            continue
        for i in range(n):
            ctx.eq(name, M, sol[nodes[i]], want[i], what=f"[{nodes[i]}]")

    blocks = ctx.call("blocks", lambda: G.blocks)
    if not isinstance(blocks, LibRaised):
        have = [frozenset(ix[x] for x in blk) for blk in blocks]
        ok_part = sum(map(len, have)) == n and sorted(map(sorted, have)) in (sorted(map(sorted, comps)), sorted(map(sorted, set(comp_all.values()))))
        ctx.check("blocks|partition", ok_part, lambda: f"blocks {[sorted(b) for b in have]} are not the strongly connected components {[sorted(c) for c in comps]}")
        pos = {}
        for k, blk in enumerate(have):
            for i in blk:
                pos[i] = k
        if len(pos) == n:
            bad = [(nodes[i], nodes[j]) for i in range(n) for j in range(n) if not M.is_zero(A[i][j]) and pos[i] != pos[j] and not pos[i] < pos[j]]
            ctx.check("blocks|order", not bad, lambda: f"edges {bad} go from a later block to an earlier one")
        bk = ctx.call("buckets", lambda: G.buckets)
        if not isinstance(bk, LibRaised) and len(pos) == n:
            ctx.check("buckets|blocks", all(bk.get(nodes[i]) == pos[i] for i in range(n)), "buckets disagree with blocks")
