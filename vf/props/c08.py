"""
C08  Total weights are the least solution of the grammar equations.

Oracle: vf.cfgref.total (Kleene iteration of the full polynomial system from zero, in the model
semiring) against agenda(), naive_bottom_up(), treesum(); on finite languages additionally the
plain sum of the string weights; Expectation pairs against expected_length.
"""

from hypothesis import strategies as st

from vf import gen
from vf.build import lib_cfg
from vf.cfgref import RG, Inside, total
from vf.core import LibRaised
from vf.semi import model

ID = "C08"
RULE = (
    "case = (grammar, regime in FLOAT/REAL convergent by construction, BOOL, MT, MP, or "
    "non-recursive QQ/FREE, rule rotation); agenda()[X], naive_bottom_up()[X] for every nonterminal "
    "and treesum() are compared with the reference least fixed point; finite languages also with "
    "the sum of string weights; Float grammars also expected_length; non-trivial = >=2 nonterminals "
    "in different SCCs or a symbol repeated in one body, and the start value is neither zero nor one; "
    "distinct = SHA-1 of the case"
)
ASSUMPTIONS = [
    "convergence by construction (DESIGN 4.2): sum_r w_r*max(1,n_r) <= 3/4 per head, so Kleene iteration converges linearly",
    "FLOAT comparisons use rtol 1e-8 (the library's own iteration stops at 1e-12 per update)",
    "QQ/FREE only on non-recursive grammars (finite sums, exact)",
]
REGIMES = ["FLOAT", "FLOAT", "FLOAT", "REAL", "BOOL", "MT", "MP", "QQ", "FREE"]


def examples(tier):
    return 2000 if tier == "quick" else 24000


@st.composite
def strategy(draw, tier="quick"):
    regime = draw(st.sampled_from(REGIMES))
    shape = "nonrecursive" if regime in ("QQ", "FREE") else None
    g = draw(gen.grammar(regimes=[regime], shape=shape, signed=True, **gen.size(tier)))
    # calls made on the same grammar object *before* the totals are asked for: they fill the object's
    # caches (trimmed copy, normal forms) or run the same computation with loose settings
    warm = draw(st.lists(st.sampled_from(WARM), max_size=3)) if draw(st.booleans()) else []
    return {"g": g, "perm": draw(st.sampled_from([0, 1, 3, "rev"])), "warm": warm}


WARM = ["trim", "trim_bottomup", "cotrim", "cnf", "prefix_grammar", "nullaryremove", "unaryremove", "treesum_loose", "treesum_maxiter", "agenda_loose", "naive_loose", "call"]


def warm_up(cfg, name):
    if name == "trim":
        return cfg.trim()
    if name == "trim_bottomup":
        return cfg.trim(bottomup_only=True)
    if name == "cotrim":
        return cfg.cotrim()
    if name == "cnf":
        return cfg.cnf
    if name == "prefix_grammar":
        return cfg.prefix_grammar
    if name == "nullaryremove":
        return cfg.nullaryremove()
    if name == "unaryremove":
        return cfg.unaryremove()
    if name == "treesum_loose":
        return cfg.treesum(tol=1e-2)
    if name == "treesum_maxiter":
        return cfg.treesum(maxiter=3)
    if name == "agenda_loose":
        return cfg.agenda(tol=1e-1)
    if name == "naive_loose":
        return cfg.naive_bottom_up(timeout=2)
    if name == "call":
        return cfg(())
    raise ValueError(name)


def sccs_gt1(g):
    "number of distinct SCCs among nonterminals of the dependency graph"
    heads = sorted({h for _, h, _ in g["rules"]})
    succ = {h: set() for h in heads}
    for _, h, b in g["rules"]:
        for y in b:
            if y in succ:
                succ[h].add(y)

    def reach(a):
        seen, st_ = {a}, [a]
        while st_:
            u = st_.pop()
            for v in succ[u]:
                if v not in seen:
                    seen.add(v)
                    st_.append(v)
        return seen

    R = {h: reach(h) for h in heads}
    comps = {frozenset(x for x in heads if x in R[h] and h in R[x]) for h in heads}
    return len(comps)


def check(case, ctx):
    g = case["g"]
    M = model(g["regime"])
    G = RG.from_case(M, g)
    want = total(G)
    cl = gen.classify(g)
    ctx.cls(*cl, "regime:" + g["regime"])
    cfg = ctx.call("build", lib_cfg, M, g, case.get("perm"))

    Z = want[G.S]
    ctx.nontrivial = (sccs_gt1(g) >= 2 or "repeated_symbol" in cl) and not M.is_zero(Z) and not M.eq(Z, M.one)

    for name in case.get("warm", []):
        ctx.call("warm:" + name, warm_up, cfg, name)
        ctx.cls("warm:" + name)
    ag = ctx.call("agenda", cfg.agenda)
    if not isinstance(ag, LibRaised):
        for X in G.N:
            ctx.eq("agenda", M, ag[X], want[X], what=f"X={X}")
    nb = ctx.call("naive_bottom_up", cfg.naive_bottom_up)
    if not isinstance(nb, LibRaised):
        for X in G.N:
            ctx.eq("naive_bottom_up", M, nb[X], want[X], what=f"X={X}")
    ts = ctx.call("treesum", cfg.treesum)
    ctx.eq("treesum", M, ts, Z, what="start")

    # the start value is the sum of the string weights
    ins = Inside(G)
    n = 3
    part = M.sum(ins(xs) for xs in gen.all_strings(g["V"], n))
    rules = [(w, h, tuple(b)) for w, h, b in g["rules"]]
    from vf import cfgref

    recursive = cfgref.find_cycle_rule([(h, y, r) for r, (_, h, b) in enumerate(rules) for y in b if y not in g["V"]]) is not None
    if not recursive:
        ctx.cls("finite_language")
        maxlen = 4 ** 4
        # non-recursive, bodies <= 4, <= 4 nonterminals: strings are short; sum them all when feasible
        if len(g["V"]) ** 6 <= 800:
            part = M.sum(ins(xs) for xs in gen.all_strings(g["V"], 6))
            longest = _max_len(g)
            if longest <= 6:
                ctx.eq("treesum=sum_strings", M, ts, part, what="finite language")
    elif not M.idempotent and M.name in ("FLOAT", "REAL") and not g.get("signed"):  # partial sums are monotone only for non-negative weights
        if not isinstance(ts, LibRaised):
            ctx.check("treesum>=partial", M.from_lib(ts) >= part - 1e-9, lambda: f"treesum {ts} below the partial sum {part} of strings up to length {n}")

    if g["regime"] == "FLOAT":
        # expectation semiring: pairs (w, w * number of terminals in the body)
        E = model("EXPECT")
        GE = RG(E, G.S, G.V, [((float(w), float(w) * sum(1 for y in b if y in G.Vset)), h, b) for (w, h, b) in G.rules])
        wantE = total(GE)[G.S]
        el = ctx.call("expected_length", lambda: cfg.expected_length)
        if not isinstance(el, LibRaised):
            ctx.evals += 1
            if not (abs(el - wantE[1]) <= 1e-7 * max(1.0, abs(wantE[1]))):
                ctx.fail("expected_length|neq", f"expected_length {el} want {wantE[1]}")


def _max_len(g):
    "longest string of a non-recursive grammar"
    V = set(g["V"])
    memo = {}

    def L(X):
        if X in V:
            return 1
        if X in memo:
            return memo[X]
        memo[X] = 0
        best = 0
        for _, h, b in g["rules"]:
            if h == X:
                best = max(best, sum(L(y) for y in b))
        memo[X] = best
        return best

    return L(g["S"])
