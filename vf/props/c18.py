"""
C18  Regex automata accept exactly the regex language and are normalised.

Oracle: Python's own `re.fullmatch` on the pattern printed from the harness' AST (the AST-level
matcher in vf.regexref cross-checks `re` in the self-test).  Normalisation is checked on the
automaton read as data.
"""

from hypothesis import strategies as st

from vf import gen, regexref
from vf.autoref import RA
from vf.core import LibRaised
from vf.semi import model

ID = "C18"
POOL = ["a", "b", "c", "A", "B", "0", "1", "_", "-", " ", "\n", ".", "é", "É", "ü", "€", "😀", "ß", "S"]
RULE = (
    "case = (regex AST over literals, escapes, classes, ranges, negated classes, \\d \\w \\s and "
    "negations, dot, alternation, * + ? {m} {m,} {m,n}, groups, (?i:...); character set of 2-7 "
    "characters from a pool with ASCII incl. newline, two-case non-ASCII letters, 3- and 4-byte "
    "characters and the multi-character-uppercase letter sharp s; all strings over the set up to length "
    "3 (2 for large sets) plus 4 strings sampled from the AST and their one-character mutations); "
    "interegular_to_wfsa(p, charset)(s) > 0 <=> re.fullmatch(p, s); in addition the support of the automaton "
    "(read as data) is compared exactly, for strings of every length, with interegular's own automaton "
    "restricted to the character set (product search; a witness is re-judged with re); every state that can reach a final "
    "state has arc + final mass 1, every other state mass 0 or 1; arc labels are single characters; non-trivial = "
    "matching and non-matching strings both exist and the pattern has a negated class, dot, negated "
    "escape or (?i); distinct = SHA-1 of the case"
)
ASSUMPTIONS = [
    "class escapes have interegular's documented ASCII meaning; the oracle pattern scopes them with (?a:...)",
    "the pool excludes characters on which Python's simple case folding and interegular's {lower, upper} differ (e.g. U+1E9E, Kelvin sign, long s): that difference is third-party and documented",
    "only strings over the character set are judged",
    "negated escapes (\\D \\W \\S) occur inside a character class only in the match-nothing classes [^\\d\\D], [^\\w\\W], [^\\s\\S]: interegular 0.3.3 itself computes the wrong set for [\\S\\W] and for (?i:[c\\W]) (its own FSM disagrees with the regex), which is third-party behaviour outside the statement",
]


def examples(tier):
    return 8000 if tier == "quick" else 60000


@st.composite
def atom(draw, chars):
    k = draw(st.integers(0, 11))
    if k <= 4:
        return ["lit", draw(st.sampled_from(chars))]
    if k == 5:
        return ["dot"]
    if k == 6:
        return ["esc", draw(st.sampled_from(["d", "w", "s", "D", "W", "S"]))]
    if k == 7 and draw(st.integers(0, 1)) == 0:
        # a class that matches nothing (interegular keeps an explicit dead state for it)
        e = draw(st.sampled_from(["d", "w", "s"]))
        return ["cls", [["esc", e], ["esc", e.upper()]], True]
    items = []
    for _ in range(draw(st.integers(1, 3))):
        j = draw(st.integers(0, 5))
        if j <= 2:
            items.append(["ch", draw(st.sampled_from(chars))])
        elif j <= 4:
            lo, hi = sorted([draw(st.sampled_from("abcAB019")), draw(st.sampled_from("abcAB019"))])
            if lo.isdigit() != hi.isdigit() or lo.isupper() != hi.isupper():
                hi = lo
            items.append(["rng", lo, hi])
        else:
            items.append(["esc", draw(st.sampled_from(["d", "w", "s"]))])
    return ["cls", items, draw(st.integers(0, 2)) == 0]


@st.composite
def regex(draw, chars, depth=3):
    if depth == 0 or draw(st.integers(0, 9)) < 3:
        return draw(atom(chars))
    k = draw(st.sampled_from(["cat", "cat", "cat", "alt", "rep", "rep", "grp", "icase"]))
    if k in ("cat", "alt"):
        return [k, [draw(regex(chars, depth - 1)) for _ in range(draw(st.integers(2, 3)))]]
    if k == "rep":
        m, mx = draw(st.sampled_from([(0, None), (1, None), (0, 1), (2, 2), (1, 2), (2, None), (0, 2), (1, 3)]))
        return ["rep", draw(regex(chars, depth - 1)), m, mx]
    return [k, draw(regex(chars, depth - 1))]


@st.composite
def sample(draw, n, charset, icase=False, fuel=6):
    "a string matching the AST, restricted to the character set when possible (may return None)"
    k = n[0]
    cs = sorted(charset)
    if k == "lit":
        opts = sorted(regexref._fold(n[1])) if icase else [n[1]]
        return draw(st.sampled_from(opts))
    if k in ("esc", "dot", "cls"):
        ok = [c for c in cs if regexref.ends(n, c, 0, icase)]
        return draw(st.sampled_from(ok)) if ok else None
    if k == "cat":
        parts = [draw(sample(x, charset, icase, fuel)) for x in n[1]]
        return None if any(p is None for p in parts) else "".join(parts)
    if k == "alt":
        return draw(sample(draw(st.sampled_from(n[1])), charset, icase, fuel))
    if k == "grp":
        return draw(sample(n[1], charset, icase, fuel))
    if k == "icase":
        return draw(sample(n[1], charset, True, fuel))
    if k == "rep":
        m, mx = n[2], n[3]
        t = draw(st.integers(m, min(m + 2, mx if mx is not None else m + 2)))
        parts = [draw(sample(n[1], charset, icase, fuel - 1)) for _ in range(t)]
        return None if any(p is None for p in parts) else "".join(parts)
    raise ValueError(k)


@st.composite
def strategy(draw, tier="quick"):
    # few characters make literals collide (loops re-entered by their own first character, ...)
    k = draw(st.sampled_from([2, 2, 3, 3, 3, 3, 4, 4, 5, 7]))
    charset = draw(st.lists(st.sampled_from(POOL), min_size=k, max_size=k, unique=True))
    lits = charset + (["x"] if draw(st.integers(0, 5)) == 0 else [])
    ast = draw(regex(lits, 3))
    samples = [draw(sample(ast, set(charset))) for _ in range(4)]
    return {"ast": ast, "charset": charset, "samples": [s for s in samples if s is not None and len(s) <= 8]}


def candidate_strings(case):
    cs = case["charset"]
    n = 3 if len(cs) <= 4 else 2
    out = ["".join(x) for x in gen.all_strings(cs, n)]
    for s in case.get("samples", []):
        out.append(s)
        for i in range(len(s)):
            out.append(s[:i] + s[i + 1 :])
            out.append(s[:i] + cs[(i + len(s)) % len(cs)] + s[i + 1 :])
        out.append(s + cs[len(s) % len(cs)])
    allowed = set(cs)
    return list(dict.fromkeys(x for x in out if set(x) <= allowed))


def fsm_vs_wfsa(fsm, A, charset):
    """Exact comparison, over *all* strings on the character set, of the support of the library's
    automaton (read as data) with interegular's own automaton for the pattern: breadth-first search
    of the product of the two (subset construction on the library side).  Returns None when the
    languages agree, else (shortest witness, whether the expression accepts it)."""
    delta = {}
    for q, a, r, w in A.arcs:
        if w != 0:
            delta.setdefault((q, a), set()).add(r)
    final = {q for q, w in A.stop.items() if w != 0}

    def step(s, ch):
        if s is None:
            return None
        try:
            c = fsm.alphabet[ch]
        except KeyError:
            return None
        return fsm.map.get(s, {}).get(c)

    init = (fsm.initial, frozenset(q for q, w in A.start.items() if w != 0))
    seen = {init: ""}
    queue = [init]
    while queue:
        s, Q = queue.pop(0)
        w = seen[(s, Q)]
        acc_f = s is not None and s in fsm.finals
        if acc_f != bool(Q & final):
            return w, acc_f
        if len(seen) > 5000:
            return None
        for ch in sorted(charset):
            nxt = (step(s, ch), frozenset(r for q in Q for r in delta.get((q, ch), ())))
            if nxt[0] is None and not nxt[1]:
                continue
            if nxt not in seen:
                seen[nxt] = w + ch
                queue.append(nxt)
    return None


def check(case, ctx):
    import re
    import warnings

    from genlm.grammar.lark_interface import interegular_to_wfsa

    ast = case["ast"]
    charset = set(case["charset"])
    pat = regexref.to_pattern(ast)
    orc = re.compile(regexref.to_pattern(ast, oracle=True))
    feats = regexref.features(ast)
    ctx.cls(*("re:" + f for f in feats))

    with warnings.catch_warnings():
        warnings.simplefilter("ignore")
        m = ctx.call("interegular_to_wfsa", interegular_to_wfsa, pat, charset=set(charset))
    if isinstance(m, LibRaised):
        return
    cands = candidate_strings(case)
    # Third-party guard: the library delegates the meaning of the expression to interegular.  Where
    # interegular's own automaton disagrees with Python's re on a candidate (known: [\\S\\W],
    # (?i:[c\\W]), lookaheads) neither can serve as the oracle; such a case is counted and its
    # acceptance is not judged (its normalisation still is).
    third_party = False
    fsm = None
    try:
        import interegular

        fsm = interegular.parse_pattern(pat).to_fsm()
        if any(not fsm.islive(e) for e in fsm.states) and any(fsm.islive(e) for e in fsm.states):
            ctx.cls("fsm:dead_state_beside_live")
        third_party = any(fsm.accepts(s) != (orc.fullmatch(s) is not None) for s in cands)
    except Exception:  # noqa: BLE001
        pass
    if third_party:
        ctx.cls("discard:interegular_disagrees_with_re")
        cands = []
    n_match = 0
    for s in cands:
        want = orc.fullmatch(s) is not None
        n_match += want
        w = ctx.call("call", m, s)
        if isinstance(w, LibRaised):
            break
        have = w > 0
        if want and not have:
            ctx.check("accept|missing", False, f"pattern {pat!r} charset {sorted(charset)!r}: {s!r} matches but has weight {w}")
            break
        if have and not want:
            ctx.check("accept|extra", False, f"pattern {pat!r} charset {sorted(charset)!r}: {s!r} does not match but has weight {w}")
            break
        ctx.evals += 1
    ctx.nontrivial = 0 < n_match < len(cands) and bool(feats & {"negcls", "dot", "icase", "esc:D", "esc:W", "esc:S"})

    # ---- normalisation, on the automaton as data
    F = model("FLOAT")
    A = ctx.call("read", RA.from_lib, F, m)
    if isinstance(A, LibRaised):
        return
    # ---- exact language comparison (strings of any length) with the expression's own automaton
    if fsm is not None and not third_party:
        ctx.evals += 1
        diff = fsm_vs_wfsa(fsm, A, charset)
        if diff is not None:
            w, accepted = diff
            if (orc.fullmatch(w) is not None) != accepted:
                ctx.cls("discard:interegular_disagrees_with_re")
            elif accepted:
                ctx.fail("accept|missing", f"pattern {pat!r} charset {sorted(charset)!r}: {w!r} matches but the automaton gives it weight 0 (exact comparison)")
            else:
                ctx.fail("accept|extra", f"pattern {pat!r} charset {sorted(charset)!r}: {w!r} does not match but the automaton accepts it (exact comparison)")
    pred = {}
    for q, a, r, w in A.arcs:
        if w != 0:
            pred.setdefault(r, set()).add(q)
    live, stack = set(A.stop), list(A.stop)
    while stack:
        u = stack.pop()
        for v in pred.get(u, ()):
            if v not in live:
                live.add(v)
                stack.append(v)
    mass = {}
    for q, a, r, w in A.arcs:
        mass[q] = mass.get(q, 0.0) + w
    for q, w in A.stop.items():
        mass[q] = mass.get(q, 0.0) + w
    bad = [(A.names[q], mass.get(q, 0.0)) for q in range(A.n) if q in live and abs(mass.get(q, 0.0) - 1) > 1e-9]
    ctx.check("normalised|live", not bad, lambda: f"pattern {pat!r} charset {sorted(charset)!r}: live states with mass != 1: {bad[:3]}")
    # a state that cannot reach a final state *over this character set* may still carry its
    # (locally normalised) mass, e.g. 'a\\W' over {a, b}: the statement only asks for local
    # normalisation, so every state has mass one or no arcs at all
    bad0 = [(A.names[q], mass[q]) for q in range(A.n) if q not in live and mass.get(q, 0.0) != 0 and abs(mass[q] - 1) > 1e-9]
    ctx.check("normalised|other", not bad0, lambda: f"pattern {pat!r}: states with mass other than 0 or 1: {bad0[:3]}")
    multi = sorted({a for q, a, r, w in A.arcs if not (isinstance(a, str) and len(a) == 1)}, key=repr)
    ctx.check("labels|single_char", not multi, lambda: f"pattern {pat!r}: arc labels that are not single characters: {multi}")
    ctx.check("start|one", abs(sum(A.start.values()) - 1) <= 1e-12 if A.start else True, "initial weights do not sum to one")
