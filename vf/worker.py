"""
One shard of one check.  Usage:

    python -m vf.worker run    <ID> <tier> <seed> <shard> <nshards> <outfile>
    python -m vf.worker replay <ID> <replayfile>

A shard is a pure function of the working tree, VERIF_SEED, the shard number and PYTHONHASHSEED
(set by the driver).  Random choices are Hypothesis draws only.
"""

import importlib
import json
import os
import signal
import sys
import time
import traceback

sys.setrecursionlimit(1000)  # CPython's default, stated explicitly: C05's cold long contexts rely on it

from vf import core  # noqa: E402
from vf.core import Ctx, Found, HarnessError  # noqa: E402

sys.path.insert(0, core.REPO_ROOT)

MAX_ROUNDS = int(os.environ.get("VERIF_MAX_ROUNDS", "4"))  # sensitivity runs only need the first bucket


def load_known(pid):
    known = {}
    path = os.path.join(core.VERIF_ROOT, "known_findings.txt")
    if os.path.exists(path):
        for line in open(path, encoding="utf-8"):
            line = line.strip()
            if not line.startswith("finding:"):
                continue
            parts = line.split()
            kv = dict(p.split("=", 1) for p in parts[1:3] if "=" in p)
            if kv.get("property") == pid and "key" in kv:
                known[kv["key"]] = " ".join(parts[3:])
    return known


class CaseTimeout(BaseException):
    "a single case ran into the per-case watchdog: inconclusive (exit 2), never a violation"


CASE_LIMIT = {"quick": 90, "thorough": 600}
_limit = [0]


def _on_alarm(signum, frame):
    raise CaseTimeout()


def evaluate(mod, case):
    ctx = Ctx()
    # the watchdog counts this process' own CPU time (ITIMER_VIRTUAL), not wall time, so that a
    # loaded machine cannot turn a slow case into an "inconclusive" run
    if _limit[0]:
        signal.signal(signal.SIGVTALRM, _on_alarm)
        signal.setitimer(signal.ITIMER_VIRTUAL, _limit[0])
    try:
        mod.check(case, ctx)
    finally:
        if _limit[0]:
            signal.setitimer(signal.ITIMER_VIRTUAL, 0)
    return ctx


def run(pid, tier, seed, shard, nshards, outfile):
    import hypothesis
    from hypothesis import HealthCheck, Phase, given, settings

    mod = importlib.import_module("vf.props." + pid.lower())
    known = load_known(pid)
    t0 = time.time()
    _limit[0] = int(CASE_LIMIT[tier] * float(os.environ.get("VERIF_TIMEOUT_SCALE", "1")))

    res = {
        "shard": shard,
        "hashseed": os.environ.get("PYTHONHASHSEED"),
        "cases": 0,
        "evals": 0,
        "nontrivial": [],
        "classes": {},
        "samples": [],
        "failures": [],
        "known": {},
        "regressions": 0,
        "error": None,
    }
    nontrivial = set()
    muted = set()
    state = {"target": None, "last": None, "tally": True}

    def account(case, ctx):
        if not state["tally"]:
            return
        res["cases"] += 1
        res["evals"] += ctx.evals
        for c in ctx.classes:
            res["classes"][c] = res["classes"].get(c, 0) + 1
        if ctx.nontrivial:
            d = core.digest(case)
            if d not in nontrivial:
                nontrivial.add(d)
                if len(res["samples"]) < 3:
                    res["samples"].append({"case": case, "classes": sorted(ctx.classes)})

    def process(case, ctx):
        "returns the Fail to raise on (or None)"
        unlisted = []
        for f in ctx.fails:
            if f.bucket in known:
                if state["tally"]:
                    res["known"][f.bucket] = res["known"].get(f.bucket, 0) + 1
            elif f.bucket not in muted:
                unlisted.append(f)
        if state["target"] is None and unlisted:
            state["target"] = unlisted[0].bucket
        if state["target"] is not None:
            for f in unlisted:
                if f.bucket == state["target"]:
                    return f
        return None

    def record_failure(case, fail, origin):
        def still(c):
            try:
                return any(f.bucket == fail.bucket for f in evaluate(mod, c).fails)
            except CaseTimeout:
                return False

        state["tally"] = False
        budget = int(os.environ.get("VERIF_MIN_BUDGET", "250" if tier == "quick" else "1500"))
        protect = getattr(mod, "PROTECT", ())
        try:
            small, used = core.minimise(case, still, budget=budget, protect=protect)
            ctx = evaluate(mod, small)
            detail = next((f.detail for f in ctx.fails if f.bucket == fail.bucket), fail.detail)
        except HarnessError:
            small, used, detail = case, 0, fail.detail
        state["tally"] = True
        res["failures"].append(
            {
                "bucket": fail.bucket,
                "detail": detail,
                "case": small,
                "original_case": case if core.digest(case) != core.digest(small) else None,
                "origin": origin,
                "minimise_evals": used,
                "hashseed": os.environ.get("PYTHONHASHSEED"),
                "seed": seed,
                "shard": shard,
            }
        )
        muted.add(fail.bucket)
        state["target"] = None

    # --- replay tier: committed regressions (shard 0 only; they are deterministic)
    regdir = os.path.join(core.VERIF_ROOT, "regressions", pid)
    if shard == 0 and os.path.isdir(regdir):
        for name in sorted(os.listdir(regdir)):
            if not name.endswith(".json"):
                continue
            doc = json.load(open(os.path.join(regdir, name), encoding="utf-8"))
            case = doc["case"]
            try:
                ctx = evaluate(mod, case)
            except CaseTimeout:
                res["error"] = f"regression {name} exceeded the per-case watchdog of {_limit[0]} s (inconclusive)"
                continue
            res["regressions"] += 1
            res["evals"] += ctx.evals
            while True:
                f = process(case, ctx)
                if f is None:
                    break
                record_failure(case, f, "regression:" + name)

    # --- generated search
    n_examples = mod.examples(tier)
    per_shard = max(1, -(-n_examples // nshards))
    hseed = seed * 1000 + shard

    if getattr(mod, "STATEFUL", False):
        runner = lambda: mod.run_machine(tier, hseed, per_shard, account, process, state)  # noqa: E731
    else:
        strat = mod.strategy(tier)

        def make_test():
            @hypothesis.seed(hseed)
            @settings(
                max_examples=per_shard,
                database=None,
                deadline=None,
                derandomize=False,
                report_multiple_bugs=False,
                phases=(Phase.generate,),
                suppress_health_check=[HealthCheck.too_slow, HealthCheck.data_too_large, HealthCheck.large_base_example],
                print_blob=False,
            )
            @given(strat)
            def test(case):
                case = json.loads(core.dumps(case))
                ctx = evaluate(mod, case)
                account(case, ctx)
                f = process(case, ctx)
                if f is not None:
                    state["last"] = (case, f)
                    raise Found(f.bucket)

            return test

        runner = lambda: make_test()()  # noqa: E731

    for _ in range(MAX_ROUNDS):
        state["last"] = None
        try:
            runner()
            break
        except Found:
            case, f = state["last"]
            record_failure(case, f, "generated")
            # next round: same seed, this bucket muted, so the search continues behind it
            continue
        except HarnessError as e:
            res["error"] = "harness: " + str(e)
            break
        except BaseException as e:  # noqa: BLE001
            if isinstance(e, (KeyboardInterrupt, SystemExit)):
                raise
            if _caused_by(e, CaseTimeout):
                res["error"] = f"a case exceeded the per-case watchdog of {_limit[0]} s (inconclusive)"
                break
            # Hypothesis wraps some errors (Flaky, FailedHealthCheck, ...): harness problems
            if state["last"] is not None and _caused_by_found(e):
                case, f = state["last"]
                record_failure(case, f, "generated")
                continue
            res["error"] = "harness: " + "".join(traceback.format_exception(type(e), e, e.__traceback__))[-3000:]
            break

    res["nontrivial"] = sorted(nontrivial)
    res["wall_s"] = round(time.time() - t0, 2)
    with open(outfile, "w", encoding="utf-8") as fh:
        fh.write(core.dumps(res))
    return 0 if res["error"] is None else 2


def _caused_by(e, cls):
    seen = set()
    while e is not None and id(e) not in seen:
        seen.add(id(e))
        if isinstance(e, cls):
            return True
        subs = getattr(e, "exceptions", None)
        if subs and any(_caused_by(s, cls) for s in subs):
            return True
        e = e.__cause__ or e.__context__
    return False


def _caused_by_found(e):
    return _caused_by(e, Found)


def replay(pid, path):
    mod = importlib.import_module("vf.props." + pid.lower())
    doc = json.load(open(path, encoding="utf-8"))
    case = doc["case"] if "case" in doc else doc
    ctx = evaluate(mod, case)
    known = load_known(pid)
    bad = [f for f in ctx.fails if f.bucket not in known]
    for f in ctx.fails:
        tag = "KNOWN-FINDING" if f.bucket in known else "FAIL"
        print(f"{tag}: property={pid} bucket={f.bucket} :: {f.detail}")
    print(f"replay {path}: {ctx.evals} comparisons, {len(ctx.fails)} failing")
    if bad:
        print(f"VIOLATION property={pid} replay={os.path.abspath(path)}")
        return 1
    return 0


if __name__ == "__main__":
    try:
        if sys.argv[1] == "run":
            _, _, pid, tier, seed, shard, nshards, outfile = sys.argv
            sys.exit(run(pid, tier, int(seed), int(shard), int(nshards), outfile))
        elif sys.argv[1] == "replay":
            sys.exit(replay(sys.argv[2], sys.argv[3]))
        else:
            raise SystemExit(2)
    except HarnessError as e:
        core.eprint("HARNESS ERROR:", e)
        sys.exit(2)
