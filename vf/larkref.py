"""
Lark grammars for C19: a harness AST, its printer into Lark syntax, and a reference matcher that
implements the *substitution semantics* directly: a text is accepted iff it is a concatenation of
strings matching the terminals of a terminal sequence derivable in the rule grammar, each
non-ignored terminal optionally preceded by one match of an ignored terminal.  No Lark and no
genlm code is involved in the reference; terminals are matched with Python's `re`.

Grammar (JSON):
  {"rules": [[name, expr], ...]   first rule is "start"
   "terms": [[NAME, tdef], ...]
   "ignore": [NAME, ...]}
  expr := ["seq",[e..]] | ["alt",[e..]] | ["opt",e] | ["maybe",e] | ["star",e] | ["plus",e]
        | ["rep",e,m,n] | ["rule",name] | ["term",NAME] | ["str",lit,icase]
  tdef := ["str",lit,icase] | ["re",regex_ast] | ["seq",[t..]] | ["alt",[t..]] | ["ref",NAME]
"""

import re

from vf import regexref


def _q(s):
    return '"' + s.replace("\\", "\\\\").replace('"', '\\"').replace("\n", "\\n") + '"'


def p_expr(e, top=False):
    k = e[0]
    if k == "seq":
        s = " ".join(p_expr(x) for x in e[1])
        return s if top else "(" + s + ")"
    if k == "alt":
        s = " | ".join(p_expr(x, True) for x in e[1])
        return s if top else "(" + s + ")"
    if k == "opt":
        return "(" + p_expr(e[1], True) + ")?"
    if k == "maybe":
        return "[" + p_expr(e[1], True) + "]"
    if k == "star":
        return "(" + p_expr(e[1], True) + ")*"
    if k == "plus":
        return "(" + p_expr(e[1], True) + ")+"
    if k == "rep":
        return "(" + p_expr(e[1], True) + ")" + ("~%d" % e[2] if e[2] == e[3] else "~%d..%d" % (e[2], e[3]))
    if k == "rule":
        return e[1]
    if k == "term":
        return e[1]
    if k == "str":
        return _q(e[1]) + ("i" if e[2] else "")
    raise ValueError(k)


def p_tdef(t, top=False):
    k = t[0]
    if k == "str":
        return _q(t[1]) + ("i" if t[2] else "")
    if k == "re":
        return "/" + regexref.to_pattern(t[1]).replace("/", "\\/") + "/"
    if k == "seq":
        s = " ".join(p_tdef(x) for x in t[1])
        return s if top else "(" + s + ")"
    if k == "alt":
        s = " | ".join(p_tdef(x, True) for x in t[1])
        return s if top else "(" + s + ")"
    if k == "ref":
        return t[1]
    raise ValueError(k)


def to_lark(g):
    lines = []
    for name, e in g["rules"]:
        lines.append(f"{name}: {p_expr(e, True)}")
    for name, t in g["terms"]:
        lines.append(f"{name}: {p_tdef(t, True)}")
    for name in g.get("ignore", []):
        lines.append(f"%ignore {name}")
    return "\n".join(lines) + "\n"


# ---------------------------------------------------------------------------------------------


def t_pattern(t, terms):
    "oracle regular expression of a terminal definition"
    k = t[0]
    if k == "str":
        s = re.escape(t[1])
        return f"(?i:{s})" if t[2] else s
    if k == "re":
        return "(?:" + regexref.to_pattern(t[1], oracle=True) + ")"
    if k == "seq":
        return "".join("(?:" + t_pattern(x, terms) + ")" for x in t[1])
    if k == "alt":
        return "(?:" + "|".join("(?:" + t_pattern(x, terms) + ")" for x in t[1]) + ")"
    if k == "ref":
        return "(?:" + t_pattern(terms[t[1]], terms) + ")"
    raise ValueError(k)


class Matcher:
    def __init__(self, g):
        self.g = g
        self.rules = dict((n, e) for n, e in g["rules"])
        self.terms = dict((n, t) for n, t in g["terms"])
        self.ignore = list(g.get("ignore", []))
        self.res = {n: re.compile(t_pattern(t, self.terms)) for n, t in self.terms.items()}
        self._anon = {}

    def _term_ends(self, rx, text, i):
        return {j for j in range(i, len(text) + 1) if rx.fullmatch(text, i, j)}

    def _tok(self, name_or_rx, text, i, is_ignored):
        rx = self.res[name_or_rx] if isinstance(name_or_rx, str) else name_or_rx
        starts = {i}
        if self.ignore and not is_ignored:
            for ig in self.ignore:
                starts |= self._term_ends(self.res[ig], text, i)
        out = set()
        for s in starts:
            out |= self._term_ends(rx, text, s)
        return out

    def accepts(self, text):
        table = {}
        changed = True

        def ev(e, i):
            k = e[0]
            if k == "seq":
                cur = {i}
                for x in e[1]:
                    cur = {j for p in cur for j in ev(x, p)}
                    if not cur:
                        break
                return cur
            if k == "alt":
                return {j for x in e[1] for j in ev(x, i)}
            if k in ("opt", "maybe"):
                return {i} | ev(e[1], i)
            if k in ("star", "plus", "rep"):
                m, mx = {"star": (0, None), "plus": (1, None)}.get(k, (e[2] if k == "rep" else 0, e[3] if k == "rep" else None))
                out, cur, t, seen = set(), {i}, 0, set()
                while cur and (mx is None or t <= mx):
                    if t >= m:
                        out |= cur
                    nxt = {j for p in cur for j in ev(e[1], p)}
                    t += 1
                    if mx is None and t > m:
                        nxt -= seen
                        seen |= nxt
                    cur = nxt
                    if t > len(text) + m + 2:
                        break
                return out
            if k == "rule":
                return table.get((e[1], i), set())
            if k == "term":
                return self._tok(e[1], text, i, e[1] in self.ignore)
            if k == "str":
                key = (e[1], e[2])
                if key not in self._anon:
                    s = re.escape(e[1])
                    self._anon[key] = re.compile(f"(?i:{s})" if e[2] else s)
                return self._tok(self._anon[key], text, i, False)
            raise ValueError(k)

        while changed:
            changed = False
            for name, e in self.rules.items():
                for i in range(len(text) + 1):
                    new = ev(e, i)
                    old = table.get((name, i), set())
                    if not new <= old:
                        table[(name, i)] = old | new
                        changed = True
        return len(text) in table.get(("start", 0), set())
