"""
Harness-owned schedule for the Earley agendas.

The two Earley modules pop a C `LocatorMaxHeap`; ties between equal priorities are broken by heap
layout.  `install(salt)` replaces the *name* `LocatorMaxHeap` in the two modules' namespaces by a
pure-Python max-heap that breaks ties by a keyed hash of (salt, item).  On correct code equal
priority items are independent, so every salt must give the same value.  salt=None restores the
original heap.  No repository hook is involved.
"""

import sys
import threading

_orig = {}


class SaltedHeap:
    def __init__(self, salt):
        self.salt = salt
        self.d = {}

    def __setitem__(self, item, prio):
        self.d[item] = prio

    def __len__(self):
        return len(self.d)

    def __bool__(self):
        return bool(self.d)

    def _tie(self, item):
        h = self.salt & 0xFFFFFFFF
        for x in item:
            h = (h ^ (hash(x) & 0xFFFFFFFF)) * 0x9E3779B1 & 0xFFFFFFFF
            h ^= h >> 15
        return h

    def pop(self):
        best = max(self.d.items(), key=lambda kv: (kv[1], self._tie(kv[0])))
        del self.d[best[0]]
        return best


def install(salt):
    import genlm.grammar.parse.earley as e1
    import genlm.grammar.parse.earley_rescaled as e2

    for m in (e1, e2):
        if m.__name__ not in _orig:
            _orig[m.__name__] = m.LocatorMaxHeap
        if salt is None:
            m.LocatorMaxHeap = _orig[m.__name__]
        else:
            m.LocatorMaxHeap = lambda salt=salt: SaltedHeap(salt)


class CallBudget:
    """Deterministic termination check: count calls of the named functions with sys.setprofile
    and abort with BudgetExceeded when the budget is exhausted (never a wall clock)."""

    class Exceeded(Exception):
        pass

    def __init__(self, names, budget):
        self.names = set(names)
        self.budget = budget
        self.count = 0

    def _prof(self, frame, event, arg):
        if event == "call" and frame.f_code.co_name in self.names:
            self.count += 1
            if self.count > self.budget:
                raise CallBudget.Exceeded(f"more than {self.budget} calls of {sorted(self.names)}")

    def __enter__(self):
        self._old = sys.getprofile()
        sys.setprofile(self._prof)
        threading.setprofile(self._prof)
        return self

    def __exit__(self, *a):
        sys.setprofile(self._old)
        threading.setprofile(None)
        return False
