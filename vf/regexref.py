"""
Regular-expression ASTs for C18 / C19: generation, printing into the syntax shared by Python's `re`
and interegular, an AST-level matcher (sets of end positions), and sampling of matching strings.

Nodes (JSON lists):
  ["lit", c]                       one character
  ["cls", items, negated]          items: ["ch", c] | ["rng", lo, hi] | ["esc", "d"|"w"|"s"|"D"|"W"|"S"]
                                   (a negated class holding both \\w and \\W matches nothing: the
                                   automaton then has a dead state)
  ["esc", "d"|"w"|"s"|"D"|"W"|"S"]
  ["dot"]
  ["cat", [nodes]]   ["alt", [nodes]]   ["rep", node, m, n|null]   ["grp", node]   ["icase", node]

The class escapes follow interegular's documented meaning (ASCII only): \\d = [0-9],
\\w = [A-Za-z0-9_], \\s = [ \\t\\n\\r\\f\\v].  The oracle pattern therefore scopes them with (?a:...).
"""

import re

SPECIAL = set(".^$*+?{}[]\\|()-/")
ESC = {
    "d": set("0123456789"),
    "w": set("abcdefghijklmnopqrstuvwxyzABCDEFGHIJKLMNOPQRSTUVWXYZ0123456789_"),
    "s": set(" \t\n\r\f\v"),
}


def _lit(c, in_class=False):
    if c == "\n":
        return "\\n"
    if c == "\t":
        return "\\t"
    if in_class:
        return "\\" + c if c in "]^-\\[" else c
    return "\\" + c if c in SPECIAL else c


def to_pattern(n, oracle=False):
    "print the AST; oracle=True scopes ASCII-only escapes for Python's re"
    k = n[0]
    if k == "lit":
        return _lit(n[1])
    if k == "esc":
        s = "\\" + n[1]
        return f"(?a:{s})" if oracle else s
    if k == "dot":
        return "."
    if k == "cls":
        body = ""
        has_esc = False
        for it in n[1]:
            if it[0] == "ch":
                body += _lit(it[1], True)
            elif it[0] == "rng":
                body += _lit(it[1], True) + "-" + _lit(it[2], True)
            else:
                body += "\\" + it[1]
                has_esc = True
        s = "[" + ("^" if n[2] else "") + body + "]"
        return f"(?a:{s})" if (oracle and has_esc) else s
    if k == "cat":
        return "".join(to_pattern(x, oracle) for x in n[1])
    if k == "alt":
        return "(" + "|".join(to_pattern(x, oracle) for x in n[1]) + ")"
    if k == "grp":
        return "(" + to_pattern(n[1], oracle) + ")"
    if k == "icase":
        return "(?i:" + to_pattern(n[1], oracle) + ")"
    if k == "rep":
        inner = to_pattern(n[1], oracle)
        if n[1][0] in ("cat", "rep") or (n[1][0] == "lit" and len(inner) > 2):
            inner = "(" + inner + ")"
        m, mx = n[2], n[3]
        if (m, mx) == (0, None):
            q = "*"
        elif (m, mx) == (1, None):
            q = "+"
        elif (m, mx) == (0, 1):
            q = "?"
        elif mx is None:
            q = "{%d,}" % m
        elif m == mx:
            q = "{%d}" % m
        else:
            q = "{%d,%d}" % (m, mx)
        return inner + q
    raise ValueError(k)


# ---------------------------------------------------------------------------------------------
# AST-level matcher (used to cross-check `re` in the self-test, and as C19's terminal matcher)


def _fold(c):
    "the characters equal to c under simple case-insensitive matching"
    out = {c}
    lo, up = c.lower(), c.upper()
    if len(lo) == 1:
        out.add(lo)
    if len(up) == 1:
        out.add(up)
    return out


def _class_match(n, c, icase):
    def plain(ch):
        for it in n[1]:
            if it[0] == "ch" and it[1] == ch:
                return True
            if it[0] == "rng" and it[1] <= ch <= it[2]:
                return True
            if it[0] == "esc" and (ch in ESC[it[1].lower()]) == it[1].islower():
                return True
        return False

    hit = any(plain(x) for x in (_fold(c) if icase else {c}))
    return hit != bool(n[2])


def ends(n, s, i, icase=False):
    "set of end positions of matches of node n in s starting at i"
    k = n[0]
    if k == "lit":
        if i < len(s) and (s[i] == n[1] or (icase and (s[i] in _fold(n[1]) or n[1] in _fold(s[i])))):
            return {i + 1}
        return set()
    if k == "esc":
        if i >= len(s):
            return set()
        inside = s[i] in ESC[n[1].lower()]
        return {i + 1} if inside == n[1].islower() else set()
    if k == "dot":
        return {i + 1} if i < len(s) and s[i] != "\n" else set()
    if k == "cls":
        return {i + 1} if i < len(s) and _class_match(n, s[i], icase) else set()
    if k == "cat":
        cur = {i}
        for x in n[1]:
            cur = {e for p in cur for e in ends(x, s, p, icase)}
            if not cur:
                break
        return cur
    if k == "alt":
        return {e for x in n[1] for e in ends(x, s, i, icase)}
    if k == "grp":
        return ends(n[1], s, i, icase)
    if k == "icase":
        return ends(n[1], s, i, True)
    if k == "rep":
        m, mx = n[2], n[3]
        out = set()
        cur = {i}
        seen = set()
        t = 0
        while cur and (mx is None or t <= mx):
            if t >= m:
                out |= cur
            nxt = {e for p in cur for e in ends(n[1], s, p, icase)}
            t += 1
            if mx is None and t > m:
                nxt -= seen
                seen |= nxt
            cur = nxt
            if t > len(s) + m + 1:
                break
        return out
    raise ValueError(k)


def fullmatch_ast(n, s):
    return len(s) in ends(n, s, 0)


def fullmatch_re(n, s):
    return re.fullmatch(to_pattern(n, oracle=True), s) is not None


def chars_of(n, acc=None):
    acc = set() if acc is None else acc
    k = n[0]
    if k == "lit":
        acc.add(n[1])
    elif k == "cls":
        for it in n[1]:
            if it[0] == "ch":
                acc.add(it[1])
            elif it[0] == "rng":
                acc.update((it[1], it[2]))
    elif k in ("cat", "alt"):
        for x in n[1]:
            chars_of(x, acc)
    elif k in ("rep", "grp", "icase"):
        chars_of(n[1], acc)
    return acc


def features(n, acc=None):
    acc = set() if acc is None else acc
    k = n[0]
    acc.add(k if k != "cls" else ("negcls" if n[2] else "cls"))
    if k == "esc":
        acc.add("esc:" + n[1])
    if k == "rep":
        acc.add("rep:bounded" if n[3] is not None and n[3] > 1 else "rep")
    if k in ("cat", "alt"):
        for x in n[1]:
            features(x, acc)
    elif k in ("rep", "grp", "icase"):
        features(n[1], acc)
    return acc
