#!/bin/sh
# MANIFEST.setup_cmd: offline, idempotent.  Hypothesis is the only third-party engine needed.
/venv/bin/python -c "import hypothesis" 2>/dev/null || \
  /venv/bin/pip install --no-index --find-links /opt/veriftools/wheels hypothesis
/venv/bin/python -c "import hypothesis, genlm.grammar; print('setup ok: hypothesis', hypothesis.__version__)"
