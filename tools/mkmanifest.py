#!/venv/bin/python
"""Regenerate MANIFEST.json from the table below and the set of built checks (vf/props/cNN.py)."""

import json
import os

ROOT = os.path.dirname(os.path.dirname(os.path.realpath(__file__)))

# id -> (technique, level text, level note, design ref)
TABLE = {
    "C01": (
        "hypothesis generated grammars x exhaustive short contexts; oracle = Bar-Hillel product with the prefix DFA in the Boolean model (viability decided exactly)",
        "Both directions of the mask (nothing missing, nothing extra) on thousands of small grammars incl. empty language, nullable/unary cycles, both back-ends, 16 hash seeds; bounded exploration, not a proof.",
        "Trusted: vf.cfgref (self-tested against brute-force derivation enumeration). Bounds: <=4 nonterminals, <=8 rules, contexts <=3 (4 thorough).",
    ),
    "C02": (
        "hypothesis generated grammars x exhaustive short strings; differential against a definitional inside-weight reference in exact (Boolean, tropical, free polynomial, rational) and float models; metamorphic rule order / renaming / agenda tie-break salt / hash seed",
        "Every parser against an independent derivation-sum reference on all strings up to length 3-4; in the free semiring equality of derivation multisets.  Exploration with exact oracles, not a proof.",
        "Trusted: vf.cfgref.Inside (self-tested vs brute force).  Float regimes use rtol 1e-8.",
    ),
}


def built():
    return sorted(
        f[:-3].upper() for f in os.listdir(os.path.join(ROOT, "vf", "props")) if f.startswith("c") and f.endswith(".py")
    )


def main():
    props = [json.loads(l) for l in open(os.path.join(ROOT, "properties.jsonl"), encoding="utf-8")]
    have = set(built())
    checks, na = [], []
    for p in props:
        pid = p["id"]
        if pid in have and pid in TABLE:
            tech, text, note = TABLE[pid]
            checks.append(
                {
                    "property_id": pid,
                    "quick_cmd": f"./check {pid} --tier quick",
                    "thorough_cmd": f"./check {pid} --tier thorough",
                    "evidence_file": f"/verif/evidence/{pid}.json",
                    "replay_cmd_template": f"./check {pid} --replay {{path}}",
                    "engine": "hypothesis",
                    "level_claimed": {"category": "exploration", "text": text, "design_ref": f"DESIGN.md section 6 ({pid})"},
                    "level_note": note,
                    "technique": "property-based testing: " + tech,
                }
            )
        else:
            na.append({"property_id": pid, "reason": "check not built yet (work in progress; planned in DESIGN.md section 6)"})
    man = {
        "version": 1,
        "setup_cmd": "./setup.sh",
        "hooks": {
            "guard": "GENLM_GRAMMAR_VERIF",
            "enable": "no source hooks are needed: checks import /repo's working tree directly (PYTHONPATH) and own the Earley agenda tie-break by replacing the name LocatorMaxHeap from the harness",
            "baseline_off_cmd": "cd /repo && /venv/bin/python -m pytest -ra -q -p no:cacheprovider --timeout=900 --continue-on-collection-errors",
            "source_commits": [],
            "add_only": True,
        },
        "engines": [
            {
                "name": "hypothesis",
                "path": "/verif/vf",
                "serves_properties": [c["property_id"] for c in checks],
                "kind_free_text": "Hypothesis 6.168 generators + reference models (vf/cfgref.py, vf/autoref.py, ...), 16 seeded shards per check, own JSON minimiser, replay files",
            }
        ],
        "checks": checks,
        "not_applicable": na,
        "notes": "Exit 0 held / 1 VIOLATION / 2 harness error (inconclusive). VERIF_SEED selects the Hypothesis seeds and PYTHONHASHSEEDs of the 16 shards. known_findings.txt lists fixed and recorded defects.",
    }
    with open(os.path.join(ROOT, "MANIFEST.json"), "w", encoding="utf-8") as fh:
        json.dump(man, fh, indent=1, ensure_ascii=False)
        fh.write("\n")
    print("checks:", [c["property_id"] for c in checks], "not_applicable:", len(na))


if __name__ == "__main__":
    main()
