#!/venv/bin/python
"""Regenerate MANIFEST.json from the table below and the set of built checks (vf/props/cNN.py)."""

import json
import os

ROOT = os.path.dirname(os.path.dirname(os.path.realpath(__file__)))

# id -> (technique, level text, level note, design ref)
TABLE = {
    "C01": (
        "generated grammars (four families: random, shared left corners, left-corner cycles, CNF-shaped; up to 4 terminals; terminals also ints, tuples, booleans; tiny positive float weights) x exhaustive short contexts x both back-ends, queried shortest-first and again longest-first on the same object; oracle = Bar-Hillel product with the prefix DFA in the Boolean model (viability decided exactly); metamorphic rule order / renaming / hash seed",
        "Both directions of the mask (nothing missing, nothing extra) on 2400 (quick) small grammars incl. empty language, nullable/unary cycles, indirect left recursion, both back-ends, two query orders, 16 hash seeds. Bounded exploration, not a proof.",
        "Trusted: vf.cfgref (self-tested against brute-force derivation enumeration and closed forms). Bounds: <=4 nonterminals (5 thorough), <=8 rules (10), <=4 terminals, contexts <=3 (2 with 4 terminals; 4 thorough).",
    ),
    "C02": (
        "generated grammars (four families; terminals as strings, ints incl. 0, sparse ints, tuples; signed rational weights) x exhaustive short strings; differential against a definitional inside-weight reference in exact (Boolean, tropical, free polynomial, rational) and float models; metamorphic rule order / renaming / agenda tie-break salt / hash seed",
        "Every parser against an independent derivation-sum reference on all strings up to length 3-4; in the free semiring equality of derivation multisets. Exploration with exact oracles, not a proof.",
        "Trusted: vf.cfgref.Inside (self-tested vs brute force). Float regimes use rtol 1e-7 + atol 1e-10. Bounds: <=4 nonterminals (5 thorough), <=8 rules (10), strings <=3 (4).",
    ),
    "C03": (
        "generated grammars x exhaustive short prefixes; oracle = Bar-Hillel product with the deterministic automaton of p.V* then least fixed point; exact on finite languages (free / rational semirings)",
        "prefix_weight, the prefix grammar (read as data), the derivative chain and single derivatives against an independent prefix-sum reference; exact multiplicity on finite languages. Exploration.",
        "Trusted: vf.cfgref.prefix / Inside. FLOAT grammars are convergent by construction.",
    ),
    "C04": (
        "generated convergent grammars x three LM back-ends x contexts; oracle = conditionals from reference prefix/inside/total weights; long contexts (600-1500 tokens) against exact Fraction forward vectors of a generated automaton; tie-break salts, hash seeds",
        "Normalisation, proportionality to prefix weights, chain rule, back-end agreement, un-normalised weights = parser weights, zero on non-viable contexts, rescaled parser far below 1e-300, plain parser while the prefix weight is still representable (subnormal window 1e-315..1e-309). Exploration.",
        "Trusted: vf.cfgref; Fractions for long contexts. rtol 1e-6.",
    ),
    "C05": (
        "stateful (Hypothesis RuleBasedStateMachine): histories of p_next / call / chart / clear_cache / grammar transformations / cold long contexts / one sweep over all short contexts (incl. complete sentences ending in EOS) in a drawn order / the caller's own list edited in place / the parser underneath a language model, on one object; model = fresh object per query; invariant after every step",
        "History independence and purity over ~8000 (quick) generated query histories (siblings, prefixes, repeats, clears, EOS inside contexts, cold 500+-token contexts under the default recursion limit) for 8 object kinds, on random, shared-left-corner and left-corner-cycle grammars; terminals also integers, incl. distinct integers with equal hashes. Exploration of histories up to 20-30 rule applications.",
        "The model is the library on a fresh object (that is the property); value correctness is C01-C04.",
    ),
    "C06": (
        "generated grammars (four families, non-string terminals, signed weights) x every transformation/option x unfold at every site x four chains of two (incl. a renaming onto existing names); oracle = reference parser on both sides (transformed grammar read as data), library evaluator T(cfg)(xs) as a secondary observation; exact regimes incl. free polynomial semiring",
        "Weighted-language preservation of all 17 transformation variants on all strings up to length 3; polynomial identity in the free semiring. Exploration.",
        "Trusted: vf.cfgref.Inside on both sides.",
    ),
    "C07": (
        "generated grammars (raw, with useless symbols, unproductive start, nullable and unary cycles) x transformations; validity predicates on the output written in the harness (own SCC / reachability / generating sets)",
        "Structural postconditions of CNF, nullary/unary(-cycle) removal, binarisation, separations and trim on every generated input (non-string terminals, signed weights, duplicate rules of opposite weight), trim of a re-weighted copy (map_values), has_unary_cycle. Exploration.",
        "Predicates are harness code; 'useful' = reachable and generating in the result.",
    ),
    "C08": (
        "generated convergent / idempotent / non-recursive grammars; oracle = Kleene iteration of the full polynomial system in the model semiring; finite languages vs the sum of string weights; expectation pairs",
        "agenda, naive_bottom_up, treesum, expected_length against an independent least-fixed-point computation for every nonterminal, rule rotations and 16 hash seeds (pop orders), also after warm-up calls on the same object (trim, cnf, loose-tolerance runs). Exploration.",
        "Convergence by construction; rtol 1e-7.",
    ),
    "C09": (
        "generated grammar x transducer / acceptor pairs; oracle = Bar-Hillel matrix equations against the epsilon-free cross-section of the transducer; composed grammar read as data and reference-evaluated",
        "Relational composition in both argument orders, acceptor product, string intersection total, length truncation, for machines with epsilon on either tape, eps:eps, cycles, dead states, now and then 8-9 states. Exploration.",
        "Trusted: vf.cfgref.compose_total, vf.autoref.cross_section (self-tested vs brute force).",
    ),
    "C10": (
        "generated transducer pairs (rational, Real, Float, Boolean; gapped state names; a third of the float machines re-weighted by a potential so that arcs span 1e-14..1e14 at unchanged path weights); oracle = Hadamard product of the two epsilon-free cross-sections (bijection with matching path pairs); composed machine read as data and evaluated by the reference lattice recursion",
        "Composition in both operand orders on the same two objects (both association branches), before or after the objects were evaluated; evaluation, cross-sections, transpose, projections, from_string / diag / from_pairs against relational semantics; constructor results extended by the caller must not leak; both construction APIs. Exploration.",
        "Trusted: vf.autoref.rel / compose_ref (self-tested vs path enumeration).",
    ),
    "C11": (
        "generated automata x exhaustive short strings; oracle = alpha E* M_x1 E* ... beta as dense matrices over exact model semirings; acyclic cases also brute-force path enumeration",
        "String weights, epsilon removal (read as data) and total weight against matrix path sums incl. epsilon cycles; symbols as strings, ints incl. 0, tuples, equal-hash ints, symbols whose printed forms concatenate alike (1/11, a/aa, '1'/1); gapped state names; signed weights; both construction APIs (add_* / set_*); up to 6 states and strings up to length 5; derived machines extended and then queried. Exploration.",
        "Trusted: vf.autoref (Gaussian elimination over Q / power sums).",
    ),
    "C12": (
        "generated expression trees of rational operations; oracle = denotational evaluator over truncated weighted languages (sum, Cauchy product, star as least solution); constructed automaton read as data and via the library evaluator",
        "Union, concatenation, star, plus, reversal, zero/one, lift, from_string(s), rename, renumber on operands with epsilon arcs, initial-is-final states and gapped / disjoint state names, nested to depth 3; operations applied twice to the same operand objects, operands evaluated before use, and every operand re-checked afterwards. Exploration.",
        "Star only where the series converges (generator scales operands).",
    ),
    "C13": (
        "generated acyclic / deterministic automata over Q (all operations) and arbitrary cyclic automata with epsilon cycles and self-loops (push / trim / trim_vals); symbols incl. ints and tuples; oracle = exact equivalence over Q for all strings at once (Tzeng) + structural predicates + deterministic call budget for termination",
        "determinize, min_det, push, trim, trim_vals: language equality decided exactly for all strings, determinism, stochasticity after pushing, liveness after trimming. Exploration of inputs; each comparison is exact.",
        "Termination only claimed where it is a theorem.",
    ),
    "C14": (
        "generated real-weighted automata (signed weights, diagonal-symbol family) and pairs equivalent by construction, perturbed, or differing in alphabet; both argument orders; ground truth = exact equivalence and Hankel rank over Q; call budget for termination",
        "counterexample None <=> equivalent (both orders), returned witnesses are real, ==/hash, min (of the automaton and of its transformed copy) terminates, is equivalent and has exactly Hankel-rank many states. Exploration.",
        "Well-conditioned = dyadic weights, measured singular-value gap (discards counted).",
    ),
    "C15": (
        "generated weighted digraphs; oracle = Gauss-Jordan (I-A)^-1 over Q / power sums; harness-computed SCCs and edge order",
        "closure_scc_based, closure_reference, closure, solve_left/right, blocks, buckets on graphs with nested cycles, several components, isolated nodes, components of 8-10 nodes, signed weights with cancelling parallel edges. Exploration, exact comparisons.",
        "Row sums <= 3/4 in Q.",
    ),
    "C16": (
        "generated value triples per shipped semiring (exact scores where possible, constants and fresh copies); oracle = the semiring laws",
        "All laws incl. star on thousands of triples per type (Log scores hundreds of nats apart, star operands close to divergence with the closed form as a second oracle, large integer scores); Boolean exhaustively covered. Exploration.",
        "Float tolerance rel 1e-9 / abs 1e-12.",
    ),
    "C17": (
        "generated automata over 1-4-byte alphabets with colliding state names, merged conversions, multi-character-terminal grammars; oracle = matrix path sums + UTF-8 decoding; results read as data",
        "to_cfg left/right, to_bytes, to_bytes().to_cfg, CFG.to_bytes, merged byte grammars on encodings, truncations and byte mutations; alphabets include NUL (byte value 0) and multi-character tokens (segmentation reference). Exploration.",
        "Caller-chosen state names are disjoint across merged automata (as lark_interface guarantees).",
    ),
    "C18": (
        "generated regex ASTs (incl. match-nothing classes) x character sets x exhaustive short strings + sampled matches and mutations; oracle = Python re.fullmatch, plus an exact product-automaton comparison (strings of every length) of the result with interegular's own automaton; normalisation on the automaton read as data",
        "Language equality with re on all strings up to length 2-3 over the character set, exact support equality with the expression's automaton for all lengths, and per-state normalisation. Exploration of expressions; each exact comparison covers all strings.",
        "Trusted: Python re (cross-checked by an AST matcher); ASCII class escapes as documented by interegular; cases where interegular's own automaton disagrees with re are counted and not judged (third-party).",
    ),
    "C19": (
        "generated Lark grammars printed from a harness AST x candidate texts / byte strings; oracle = reference matcher implementing the substitution semantics with Python re",
        "Acceptance equality (accepted and rejected strings) for char_cfg and byte_cfg, both recursions, %ignore, case-insensitive literals, multi-byte terminals (also 3- and 4-byte characters sharing a byte value under different prefixes), near-colliding terminal names, duplicate patterns; N/V disjointness. Exploration.",
        "Grammars Lark rejects are discarded; acceptance only.",
    ),
    "C20": (
        "generated convergent grammars (dominated, suite-style and PCFG-style weights whose per-head sums are exactly one); oracle = reference total / inside on the input and on the returned grammars read as data",
        "Per-head sums, total one, proportional string weights, EOS wrapping (default and caller-chosen end symbol) on all strings over V+EOS up to length 4. Exploration.",
        "rtol 1e-7.",
    ),
}


def built():
    return sorted(
        f[:-3].upper() for f in os.listdir(os.path.join(ROOT, "vf", "props")) if f.startswith("c") and f.endswith(".py")
    )


def main():
    props = [json.loads(l) for l in open(os.path.join(ROOT, "properties.jsonl"), encoding="utf-8")]
    have = set(built())
    checks, na = [], []
    for p in props:
        pid = p["id"]
        if pid in have and pid in TABLE:
            tech, text, note = TABLE[pid]
            checks.append(
                {
                    "property_id": pid,
                    "quick_cmd": f"./check {pid} --tier quick",
                    "thorough_cmd": f"./check {pid} --tier thorough",
                    "evidence_file": f"/verif/evidence/{pid}.json",
                    "replay_cmd_template": f"./check {pid} --replay {{path}}",
                    "engine": "hypothesis",
                    "level_claimed": {"category": "exploration", "text": text, "design_ref": f"DESIGN.md section 6 ({pid})"},
                    "level_note": note,
                    "technique": "property-based testing: " + tech,
                }
            )
        else:
            na.append({"property_id": pid, "reason": "check not built yet (work in progress; planned in DESIGN.md section 6)"})
    man = {
        "version": 1,
        "setup_cmd": "./setup.sh",
        "hooks": {
            "guard": "GENLM_GRAMMAR_VERIF",
            "enable": "no source hooks are needed: checks import /repo's working tree directly (PYTHONPATH) and own the Earley agenda tie-break by replacing the name LocatorMaxHeap from the harness",
            "baseline_off_cmd": "cd /repo && /venv/bin/python -m pytest -ra -q -p no:cacheprovider --timeout=900 --continue-on-collection-errors",
            "source_commits": [],
            "add_only": True,
        },
        "engines": [
            {
                "name": "hypothesis",
                "path": "/verif/vf",
                "serves_properties": [c["property_id"] for c in checks],
                "kind_free_text": "Hypothesis 6.168 generators + reference models (vf/cfgref.py, vf/autoref.py, ...), 16 seeded shards per check, own JSON minimiser, replay files",
            }
        ],
        "checks": checks,
        "not_applicable": na,
        "notes": "Exit 0 held / 1 VIOLATION / 2 harness error (inconclusive). VERIF_SEED selects the Hypothesis seeds and PYTHONHASHSEEDs of the 16 shards. known_findings.txt lists fixed and recorded defects.",
    }
    with open(os.path.join(ROOT, "MANIFEST.json"), "w", encoding="utf-8") as fh:
        json.dump(man, fh, indent=1, ensure_ascii=False)
        fh.write("\n")
    print("checks:", [c["property_id"] for c in checks], "not_applicable:", len(na))


if __name__ == "__main__":
    main()
