#!/venv/bin/python
"""
Sensitivity (mutation) runner.

    tools/mutate.py [--only NAME[,NAME]] [--tests] [--tier quick]

For every mutant in MUTANTS: make a scratch git worktree of /repo's HEAD under /dev/shm, apply the
textual replacement, write the diff to mutants/<name>.patch, run the listed checks against the
scratch tree (VERIF_REPO_ROOT) with evidence redirected away from /verif/evidence, record whether
each check tripped (exit 1 + VIOLATION line), remove the worktree.  With --tests the repository's
own suite is run in the scratch tree too.  Results: mutants/RESULTS.json and mutants/RESULTS.md.
"""

import argparse
import json
import os
import shutil
import subprocess
import sys
import time

ROOT = os.path.dirname(os.path.dirname(os.path.realpath(__file__)))
REPO = "/repo"
SCR = "/dev/shm/scratch"
E = "genlm/grammar/parse/earley.py"
ER = "genlm/grammar/parse/earley_rescaled.py"
CKY = "genlm/grammar/parse/cky.py"
CFG = "genlm/grammar/cfg.py"
LM = "genlm/grammar/cfglm.py"
BASE = "genlm/grammar/wfsa/base.py"
FIELD = "genlm/grammar/wfsa/field_wfsa.py"
FST = "genlm/grammar/fst.py"
LIN = "genlm/grammar/linear.py"
SEM = "genlm/grammar/semiring.py"
LARK = "genlm/grammar/lark_interface.py"

# (name, [checks expected to trip], file, old, new, note)
MUTANTS = [
    ("m01a_no_leftcorner_closure", ["C01"], E, "                if Y not in reachable:\n                    reachable.add(Y)\n                    agenda.append(Y)\n\n        rhs = self.rhs", "                if False:\n                    reachable.add(Y)\n                    agenda.append(Y)\n\n        rhs = self.rhs", "PREDICT without the left-corner closure"),
    ("m01b_eos_always_offered", ["C01"], LM, "        return Float.chart({w: 1 for w in p})", "        return Float.chart({**{w: 1 for w in p}, EOS: 1})", "EOS offered for every context"),
    ("m02a_order_max_plain", ["C02"], E, "self.ORDER_MAX = 1 + max(self.order.values())", "self.ORDER_MAX = max(self.order.values())", "plain Earley priority constant off by one"),
    ("m02b_no_accumulation", ["C02"], E, "                col.c_chart[item] = was + value", "                col.c_chart[item] = value", "second derivation of a completed item overwrites the first"),
    ("m02c_cky_preterminal_overwrite", ["C02"], CKY, "            tmp[r.head] += r.w\n", "            tmp[r.head] = r.w\n", "IncrementalCKY: two preterminal rules for one head overwrite"),
    ("m03a_prefix_counted_twice", ["C03", "C04", "C01"], CFG, "    P.add_F(1, R.one)\n    return P", "    P.add_F(1, R.one)\n    P.add_F(0, R.one)\n    return P", "prefix transducer: the full string is a prefix of itself twice"),
    ("m03b_derivative_no_null_factor", ["C03"], CFG, "                delta *= U[y]\n", "                pass\n", "derivative ignores the weight of the skipped nullable prefix"),
    ("m04a_rescale_forgotten_in_scan", ["C04", "C02"], ER, "                prev_col_i_chart[item] * prev_col.rescale,\n", "                prev_col_i_chart[item],\n", "rescaled Earley: SCAN forgets the rescale factor"),
    ("m04b_ckylm_not_normalised", ["C04"], CKY, "        return self.model.p_next(context).normalize()", "        return self.model.p_next(context)", "CKYLM returns un-normalised weights"),
    ("m05a_earley_chart_aliasing", ["C05"], E, "            return chart + [\n                last_chart\n            ]  # TODO: avoid list addition here as it is not constant time!", "            chart.append(last_chart)\n            return chart", "Earley: the child chart appends to the parent's list"),
    ("m05b_cky_chart_aliasing", ["C05"], CKY, "            return chart + [\n                last_chart\n            ]  # TODO: avoid list addition here as it is not constant time!", "            chart.append(last_chart)\n            return chart", "IncrementalCKY: the child chart appends to the parent's list"),
    ("m05c_spawn_shares_V", ["C05"], CFG, "            V=set(self.V) if V is None else V,", "            V=self.V if V is None else V,", "spawn shares the vocabulary set: add_EOS mutates the input grammar"),
    ("m06a_unaryremove_transposed", ["C06", "C02"], CFG, "                new.add(W[Y, r.head] * r.w, Y, *r.body)", "                new.add(W[r.head, Y] * r.w, Y, *r.body)", "unaryremove uses the transposed closure"),
    ("m06b_nullable_start_renamed", ["C06", "C02"], CFG, "                null_weight[x] == self.R.zero or x == self.S\n", "                null_weight[x] == self.R.zero\n", "nullaryremove renames a nullable start symbol"),
    ("m06c_fold_slice", ["C06", "C07"], CFG, "            body = p.body[i : j + 1]", "            body = p.body[i:j]", "binarize folds one symbol too few"),
    ("m06d_unfold_keeps_rule", ["C06"], CFG, "            if j != i:\n                new.add(r.w, r.head, *r.body)", "            if True:\n                new.add(r.w, r.head, *r.body)", "unfold keeps the unfolded rule"),
    ("m06e_unarycycle_selfloop_acyclic", ["C06"], CFG, "                if G[X, X] == self.R.zero:\n                    acyclic.add(X)", "                if True:\n                    acyclic.add(X)", "unarycycleremove treats a self loop X -> X as acyclic and drops it"),
    ("m07a_binarize_threshold", ["C07"], CFG, "            if len(p.body) <= 2:\n                new.add(p.w, p.head, *p.body)", "            if len(p.body) <= 3:\n                new.add(p.w, p.head, *p.body)", "binarize leaves bodies of length three"),
    ("m07b_separate_start_first_symbol", ["C07"], CFG, "        if self.S in {y for r in self for y in r.body}:\n            S = _gen_nt(self.S)", "        if self.S in {r.body[0] for r in self if r.body}:\n            S = _gen_nt(self.S)", "separate_start only looks at the first body symbol"),
    ("m08a_agenda_old_for_earlier", ["C08"], CFG, "                        if j < k:\n                            W *= new", "                        if j < k:\n                            W *= old[u]", "agenda: semi-naive update uses the old value for earlier occurrences"),
    ("m08b_agenda_loose_tolerance", ["C08"], CFG, "            if self.R.metric(old[u], new) <= tol:\n                continue", "            if self.R.metric(old[u], new) <= 1e-4:\n                continue", "agenda stops at 1e-4"),
    ("m09a_no_trailing_eps_rule", ["C09"], CFG, "            Rule(self.R.one, Other(self.S), (Other(self.S), EPSILON)),\n        ]\n\n        def join", "        ]\n\n        def join", "composition drops Other(S) -> Other(S) eps (epsilon-input arcs after the last symbol)"),
    ("m09b_no_final_weight", ["C09", "C03"], CFG, "                new.add(wi * wf, new_start, (i, Other(self.S), k))", "                new.add(wi, new_start, (i, Other(self.S), k))", "composition forgets the transducer's final weight"),
    ("m10a_filter_forbidden_move", ["C10"], FST, "    F.add_arc(2, (ε_2, ε_2), 2, R.one)\n", "    F.add_arc(2, (ε_2, ε_2), 2, R.one)\n    F.add_arc(2, (ε_1, ε_1), 1, R.one)\n", "epsilon filter allows eps1 after eps2: path pairs counted twice"),
    ("m10b_no_wait_loop_on_sinks", ["C10"], FST, "            if idx == 0:\n                T.add_arc(i, (ε, ε_1), i, self.R.one)", "            if idx == 0 and i in self.delta:\n                T.add_arc(i, (ε, ε_1), i, self.R.one)", "no waiting loop on states without outgoing arcs"),
    ("m11a_no_closure_at_start", ["C11"], BASE, "            for k in S.outgoing[i]:\n                new.add_I(k, w_i * S[i, k])", "            new.add_I(i, w_i)", "epsremove forgets the epsilon closure of the initial states"),
    ("m11b_parallel_eps_overwrite", ["C11"], BASE, "            if a == EPSILON:\n                E[i, j] += w\n", "            if a == EPSILON:\n                E[i, j] = w\n", "parallel epsilon arcs overwrite each other"),
    ("m12a_mul_drops_initial_weight", ["C12"], BASE, "                C.add_arc(i1, EPSILON, i2, w1 * w2)", "                C.add_arc(i1, EPSILON, i2, w1)", "concatenation drops the second operand's initial weight"),
    ("m12b_plus_links_final_to_final", ["C12"], BASE, "        for i, w1 in self.F:\n            for j, w2 in self.I:\n                m.add_arc(i, EPSILON, j, w1 * w2)\n        return m", "        for i, w1 in self.F:\n            for j, w2 in self.I:\n                m.add_arc(i, EPSILON, j, w2)\n        return m", "kleene_plus drops the final weight on the back link"),
    ("m13a_det_final_overwrite", ["C13"], BASE, "                D.add_F(Q, Q[q] * self.stop[q])", "                D.set_F(Q, Q[q] * self.stop[q])", "determinize: final weights of a subset overwrite instead of adding"),
    ("m13b_trim_union", ["C13"], BASE, "        return self._trim(self.accessible() & self.co_accessible())", "        return self._trim(self.accessible() | self.co_accessible())", "trim keeps accessible OR co-accessible states"),
    ("m13c_push_keeps_final", ["C13"], BASE, "            new.add_F(i, V[i] ** (-1) * self.stop[i])", "            new.add_F(i, self.stop[i])", "push does not rescale final weights"),
    ("m14a_loose_allclose", ["C14"], FIELD, "    return np.allclose(x, y)", "    return np.allclose(x, y, atol=1e-2)", "equivalence test with a 1e-2 tolerance"),
    ("m14b_backward_conjugate_not_reversed", ["C14"], FIELD, "        return self.reverse.forward_conjugate().reverse", "        return self.reverse.forward_conjugate()", "backward conjugate forgets to reverse back"),
    ("m15a_solve_left_reversed", ["C15", "C06"], LIN, "        sol = self.WeightType.chart()\n        for block, B in self.Blocks:", "        sol = self.WeightType.chart()\n        for block, B in reversed(self.Blocks):", "solve_left visits the blocks in the wrong order"),
    ("m15b_closure_not_reflexive", ["C15"], LIN, "        for i in N:\n            old[i, i] += self.WeightType.one\n        return old", "        return old", "block closure without the reflexive step"),
    ("m16a_entropy_cross_term", ["C16"], SEM, "            self.score[0] * other.score[1] + self.score[1] * other.score[0],\n        )\n\n    @classmethod\n    def from_string(cls, x):\n        x = float(x)", "            self.score[0] * other.score[1] - self.score[1] * other.score[0],\n        )\n\n    @classmethod\n    def from_string(cls, x):\n        x = float(x)", "Entropy product: wrong sign of a cross term"),
    ("m16b_expectation_star", ["C16"], SEM, "        return Expectation(ps, ps * r * ps)", "        return Expectation(ps, ps * r)", "Expectation star: one factor missing"),
    ("m16c_log_add_asym", ["C16"], SEM, "            return Log(other.score + np.log(1 + np.exp(self.score - other.score)))", "            return Log(other.score + np.log(1 + np.exp(other.score - self.score)))", "Log addition: wrong exponent in one branch"),
    ("m17a_weight_on_first_and_last_byte", ["C17", "C19"], BASE, "                    byte_wfsa.add_arc(i, bs[0], curr, self.R.one)", "                    byte_wfsa.add_arc(i, bs[0], curr, w)", "to_bytes puts the weight on the first byte as well"),
    ("m17b_left_recursion_order", ["C17", "C19"], BASE, "                    cfg.add(w, N(j), N(i), a)", "                    cfg.add(w, N(j), a, N(i))", "left-recursive to_cfg emits a i instead of i a"),
    ("m17c_cfg_to_bytes_drops_continuation", ["C17"], CFG, "                    bs = list(x.encode(\"utf-8\"))\n", "                    bs = list(x.encode(\"utf-8\"))[:2]\n", "CFG.to_bytes truncates encodings longer than two bytes"),
    ("m18a_anything_else_is_charset", ["C18"], LARK, "            return charset - set(fsm.alphabet)", "            return charset", "'anything else' expands to the whole character set"),
    ("m18b_dead_targets_counted", ["C18"], LARK, "                # print(f'{i} --{a}/{fsm.alphabet.by_transition[a]}--> {j}')\n                if j in rejection_states:\n                    continue", "                # print(f'{i} --{a}/{fsm.alphabet.by_transition[a]}--> {j}')\n                if False:\n                    continue", "fan-out K counts arcs into dead states"),
    ("m19a_ignore_twice", ["C19"], LARK, "                foo.add(decay, f(token_class.name), ignore, tmp)", "                foo.add(decay, f(token_class.name), ignore, ignore, tmp)", "two ignored matches allowed before a terminal"),
    ("m19b_ignore_no_decay_CONTROL", [], LARK, "            foo.add(decay, ignore)\n", "            foo.add(1, ignore)\n", "CONTROL: language-neutral change, must NOT trip"),
    ("m19c_ignored_terminals_get_prefix", ["C19"], LARK, "            if token_class.name in self.ignore_terms or not self.ignore_terms:", "            if not self.ignore_terms:", "ignored terminals themselves get the ignore prefix"),
    ("m20a_normalize_without_body_product", ["C20", "C04"], LM, "        new.add(r.w * Z.product(r.body) / Z[r.head], r.head, *r.body)", "        new.add(r.w / Z[r.head], r.head, *r.body)", "locally_normalize forgets the product of the body totals"),
    ("m20b_add_eos_without_eos", ["C20", "C01"], LM, "    new.add(cfg.R.one, S, cfg.S, eos)", "    new.add(cfg.R.one, S, cfg.S)", "add_EOS does not append the EOS symbol"),
]


def sh(cmd, **kw):
    return subprocess.run(cmd, shell=True, capture_output=True, text=True, **kw)


def main():
    ap = argparse.ArgumentParser()
    ap.add_argument("--only")
    ap.add_argument("--tests", action="store_true")
    ap.add_argument("--tier", default="quick")
    ap.add_argument("--all-checks", action="store_true", help="run every check against every mutant")
    a = ap.parse_args()
    only = set(a.only.split(",")) if a.only else None
    os.makedirs(SCR, exist_ok=True)
    res_path = os.path.join(ROOT, "mutants", "RESULTS.json")
    results = json.load(open(res_path)) if os.path.exists(res_path) else {}
    allc = ["C%02d" % i for i in range(1, 21)]
    for name, checks, file, old, new, note in MUTANTS:
        if only and name not in only:
            continue
        wt = os.path.join(SCR, name)
        sh(f"git -C {REPO} worktree remove --force {wt}; rm -rf {wt}")
        r = sh(f"git -C {REPO} worktree add -q --detach {wt} HEAD")
        if r.returncode != 0:
            print(name, "worktree failed", r.stderr)
            continue
        try:
            path = os.path.join(wt, file)
            src = open(path, encoding="utf-8").read()
            if src.count(old) != 1:
                print(f"{name}: pattern occurs {src.count(old)} times in {file} -- skipped")
                results[name] = {"error": "pattern not found"}
                continue
            open(path, "w", encoding="utf-8").write(src.replace(old, new))
            diff = sh(f"git -C {wt} diff").stdout
            open(os.path.join(ROOT, "mutants", name + ".patch"), "w", encoding="utf-8").write(f"# {note}\n# expected to trip: {' '.join(checks) or '(nothing: control)'}\n" + diff)
            entry = {"note": note, "expected": checks, "tripped": [], "quiet": [], "errors": [], "tier": a.tier}
            if a.tests:
                t = sh(f"cd {wt} && PYTHONPATH={wt} /venv/bin/python -m pytest -q -x -p no:cacheprovider --timeout=900 2>&1 | tail -1")
                entry["repo_tests"] = t.stdout.strip()
            env = dict(os.environ, VERIF_REPO_ROOT=wt, VERIF_EVIDENCE_DIR=os.path.join(SCR, "ev_" + name), VERIF_OUT_DIR=os.path.join(SCR, "out_" + name), VERIF_MAX_ROUNDS="1", VERIF_MIN_BUDGET="10", VERIF_TIMEOUT_SCALE="0.25")
            for c in (allc if a.all_checks else (checks or ["C19"])):
                t0 = time.time()
                p = subprocess.run([os.path.join(ROOT, "check"), c, "--tier", a.tier], env=env, capture_output=True, text=True)
                viol = [l for l in p.stdout.splitlines() if l.startswith("VIOLATION")]
                det = [l.strip() for l in p.stdout.splitlines() if l.strip().startswith("bucket=")]
                if p.returncode == 1 and viol:
                    entry["tripped"].append({"check": c, "s": round(time.time() - t0, 1), "buckets": [d[:160] for d in det[:4]]})
                elif p.returncode == 0:
                    entry["quiet"].append(c)
                else:
                    entry["errors"].append({"check": c, "rc": p.returncode, "tail": (p.stdout + p.stderr)[-600:]})
            results[name] = entry
            exp = set(checks)
            got = {t["check"] for t in entry["tripped"]}
            status = "OK" if (exp and exp & got) or (not exp and not got) else "MISSED" if exp else "FALSE-ALARM"
            print(f"{status:11s} {name}: tripped {sorted(got)} quiet {entry['quiet']} errors {[e['check'] for e in entry['errors']]} {entry.get('repo_tests', '')}", flush=True)
        finally:
            sh(f"git -C {REPO} worktree remove --force {wt}; rm -rf {wt} {SCR}/ev_{name} {SCR}/out_{name}")
        json.dump(results, open(res_path, "w"), indent=1, sort_keys=True)
    # markdown summary
    lines = ["| mutant | change | expected | tripped | quiet | repo tests |", "|---|---|---|---|---|---|"]
    for name, e in sorted(results.items()):
        if "error" in e:
            lines.append(f"| {name} | (pattern not found) | | | | |")
            continue
        lines.append(f"| {name} | {e['note']} | {' '.join(e['expected']) or 'none (control)'} | {' '.join(t['check'] for t in e['tripped'])} | {' '.join(e['quiet'])} | {e.get('repo_tests', '')} |")
    open(os.path.join(ROOT, "mutants", "RESULTS.md"), "w").write("\n".join(lines) + "\n")


if __name__ == "__main__":
    main()
