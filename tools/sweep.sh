#!/bin/sh
# tools/sweep.sh "<seeds>" [tier] [checks...]  -- quietness sweep on the unchanged tree; evidence is redirected
# so that /verif/evidence keeps coming from the registered commands only.
cd "$(dirname "$0")/.." || exit 2
SEEDS=${1:-"1 2 3"}; TIER=${2:-quick}; shift 2 2>/dev/null
CHECKS=${*:-"C01 C02 C03 C04 C05 C06 C07 C08 C09 C10 C11 C12 C13 C14 C15 C16 C17 C18 C19 C20"}
D=$(mktemp -d /dev/shm/sweep.XXXXXX)
rc=0
for s in $SEEDS; do for c in $CHECKS; do
  VERIF_SEED=$s VERIF_EVIDENCE_DIR=$D/ev VERIF_OUT_DIR=$D/out ./check $c --tier $TIER > $D/log 2>&1; r=$?
  tail -1 $D/log | sed "s/^/[rc=$r] /"
  if [ $r -ne 0 ]; then rc=1; grep -E "VIOLATION|bucket=|HARNESS" $D/log | head -6; fi
done; done
rm -rf $D
exit $rc
