#!/venv/bin/python
"""
Seeded-change runner.

    tools/seeded.py import  <srcdir> <name>     confirm a candidate change and keep it as seeded/<name>/
    tools/seeded.py run     [--only a,b] [--all-checks] [--tier quick] [--seeds 1,2]
    tools/seeded.py table                        rewrite seeded/RESULTS.md from seeded/RESULTS.json

A candidate (<srcdir> holds patch.diff, demo.py, meta.json, written by an independent sub-agent that
saw only the property text) is confirmed in a scratch git worktree of /repo's HEAD under /dev/shm:
  1. demo.py exits 0 on the pristine tree,
  2. patch.diff applies cleanly,
  3. demo.py exits non-zero with the patch,
  4. the repository's whole suite still passes with the patch.
Only then is it copied to /verif/seeded/<name>/ (meta.json gains a "confirmed" record).

`run` applies each kept patch to a fresh scratch worktree and runs the registered checks against it
(VERIF_REPO_ROOT; evidence and replay files are redirected away from /verif), records which checks
report a VIOLATION, and removes the worktree.  Nothing here ever touches /repo's working tree.
"""

import argparse
import json
import os
import shutil
import subprocess
import sys
import time

ROOT = os.path.dirname(os.path.dirname(os.path.realpath(__file__)))
REPO = "/repo"
SCR = "/dev/shm/scratch"
SEEDED = os.path.join(ROOT, "seeded")
PY = "/venv/bin/python"


def sh(cmd, **kw):
    return subprocess.run(cmd, shell=True, capture_output=True, text=True, **kw)


def worktree(name):
    os.makedirs(SCR, exist_ok=True)
    wt = os.path.join(SCR, "seed_" + name)
    sh(f"git -C {REPO} worktree remove --force {wt}; rm -rf {wt}")
    r = sh(f"git -C {REPO} worktree add -q --detach {wt} HEAD")
    if r.returncode != 0:
        raise SystemExit(f"worktree failed: {r.stderr}")
    return wt


def drop(wt, name):
    sh(f"git -C {REPO} worktree remove --force {wt}; rm -rf {wt} {SCR}/ev_{name} {SCR}/out_{name}; git -C {REPO} worktree prune")


def demo(wt, path):
    env = dict(os.environ, PYTHONPATH=wt, PYTHONWARNINGS="ignore", PYTHONDONTWRITEBYTECODE="1")
    try:
        p = subprocess.run([PY, "-W", "ignore", path], cwd=wt, env=env, capture_output=True, text=True, timeout=900)
    except subprocess.TimeoutExpired:
        return 124, "timeout"
    return p.returncode, (p.stdout + p.stderr).strip().splitlines()[-1:] or [""]


def do_import(src, name):
    wt = worktree(name)
    rec = {"repo_head": sh(f"git -C {REPO} rev-parse --short HEAD").stdout.strip()}
    try:
        patch = os.path.join(src, "patch.diff")
        rc0, last0 = demo(wt, os.path.join(src, "demo.py"))
        rec["demo_pristine_exit"] = rc0
        a = sh(f"git -C {wt} apply --check {patch} && git -C {wt} apply {patch}")
        rec["patch_applies"] = a.returncode == 0
        if a.returncode != 0:
            print(name, "patch does not apply:", a.stderr)
            return False
        touched = sh(f"git -C {wt} diff --name-only").stdout.split()
        rec["files"] = touched
        rc1, last1 = demo(wt, os.path.join(src, "demo.py"))
        rec["demo_patched_exit"] = rc1
        rec["demo_patched_last_line"] = last1[0][:400] if last1 else ""
        t = sh(f"cd {wt} && PYTHONPATH={wt} {PY} -W ignore -m pytest -q -p no:cacheprovider --timeout=900 2>&1 | tail -1")
        rec["pytest_patched"] = t.stdout.strip()
        ok = rc0 == 0 and rc1 not in (0, 124) and " passed" in rec["pytest_patched"] and "failed" not in rec["pytest_patched"] and "error" not in rec["pytest_patched"]
        ok = ok and all(f.startswith("genlm/") for f in touched)
        rec["ok"] = ok
        print(("CONFIRMED " if ok else "REJECTED  ") + name, json.dumps(rec))
        if ok:
            dst = os.path.join(SEEDED, name)
            os.makedirs(dst, exist_ok=True)
            for f in ("patch.diff", "demo.py"):
                shutil.copy(os.path.join(src, f), os.path.join(dst, f))
            meta = json.load(open(os.path.join(src, "meta.json"), encoding="utf-8"))
            meta["confirmed"] = rec
            meta["origin"] = "independent sub-agent given only the property text and a scratch worktree"
            json.dump(meta, open(os.path.join(dst, "meta.json"), "w", encoding="utf-8"), indent=1, ensure_ascii=False)
        return ok
    finally:
        drop(wt, name)


def run_one(name, checks, tier, seeds):
    d = os.path.join(SEEDED, name)
    wt = worktree(name)
    entry = {"tier": tier, "seeds": seeds, "tripped": [], "quiet": [], "errors": []}
    try:
        a = sh(f"git -C {wt} apply {os.path.join(d, 'patch.diff')}")
        if a.returncode != 0:
            entry["errors"].append({"check": "-", "tail": "patch does not apply: " + a.stderr[-300:]})
            return entry
        env = dict(os.environ, VERIF_REPO_ROOT=wt, VERIF_EVIDENCE_DIR=os.path.join(SCR, "ev_" + name), VERIF_OUT_DIR=os.path.join(SCR, "out_" + name), VERIF_MAX_ROUNDS="1", VERIF_MIN_BUDGET="10", VERIF_TIMEOUT_SCALE="0.25")
        for c in checks:
            hit = None
            for s in seeds:
                t0 = time.time()
                env["VERIF_SEED"] = str(s)
                p = subprocess.run([os.path.join(ROOT, "check"), c, "--tier", tier], env=env, capture_output=True, text=True)
                viol = [ln for ln in p.stdout.splitlines() if ln.startswith("VIOLATION")]
                det = [ln.strip() for ln in p.stdout.splitlines() if ln.strip().startswith("bucket=")]
                if p.returncode == 1 and viol:
                    hit = {"check": c, "seed": s, "s": round(time.time() - t0, 1), "buckets": [x[:200] for x in det[:3]]}
                    break
                if p.returncode != 0:
                    entry["errors"].append({"check": c, "seed": s, "rc": p.returncode, "tail": (p.stdout + p.stderr)[-500:]})
            if hit:
                entry["tripped"].append(hit)
            else:
                entry["quiet"].append(c)
    finally:
        drop(wt, name)
    return entry


def table():
    res = json.load(open(os.path.join(SEEDED, "RESULTS.json")))
    lines = ["| seeded change | breaks | what it needs | caught by | quiet (of those run) |", "|---|---|---|---|---|"]
    for name in sorted(res):
        meta = json.load(open(os.path.join(SEEDED, name, "meta.json"), encoding="utf-8"))
        e = res[name]
        needs = " ".join(str(meta.get("needs", "")).split())[:260]
        lines.append(
            f"| {name} | {meta.get('property')} | {meta.get('summary', '')[:200]} -- needs: {needs} | "
            f"{' '.join(t['check'] + '@seed' + str(t['seed']) for t in e['tripped']) or '**none**'} | {' '.join(e['quiet'])} |"
        )
    open(os.path.join(SEEDED, "RESULTS.md"), "w", encoding="utf-8").write("\n".join(lines) + "\n")


def main():
    ap = argparse.ArgumentParser()
    ap.add_argument("cmd", choices=["import", "run", "table"])
    ap.add_argument("args", nargs="*")
    ap.add_argument("--only")
    ap.add_argument("--all-checks", action="store_true")
    ap.add_argument("--also", default="", help="extra checks to run besides the property's own")
    ap.add_argument("--tier", default="quick")
    ap.add_argument("--seeds", default="1")
    a = ap.parse_args()
    os.makedirs(SEEDED, exist_ok=True)
    if a.cmd == "import":
        sys.exit(0 if do_import(a.args[0], a.args[1]) else 1)
    if a.cmd == "table":
        return table()
    res_path = os.path.join(SEEDED, "RESULTS.json")
    results = json.load(open(res_path)) if os.path.exists(res_path) else {}
    names = sorted(n for n in os.listdir(SEEDED) if os.path.isdir(os.path.join(SEEDED, n)))
    if a.only:
        names = [n for n in names if n in set(a.only.split(","))]
    allc = ["C%02d" % i for i in range(1, 21)]
    seeds = [int(s) for s in a.seeds.split(",")]
    for name in names:
        meta = json.load(open(os.path.join(SEEDED, name, "meta.json"), encoding="utf-8"))
        checks = allc if a.all_checks else [meta["property"]] + [c for c in a.also.split(",") if c]
        e = run_one(name, checks, a.tier, seeds)
        old = results.get(name)
        if old and not a.all_checks:  # keep what other checks established earlier
            ran = set(checks)
            e["tripped"] += [t for t in old.get("tripped", []) if t["check"] not in ran]
            e["quiet"] += [c for c in old.get("quiet", []) if c not in ran]
        results[name] = e
        status = "CAUGHT" if any(t["check"] == meta["property"] for t in e["tripped"]) else "caught-elsewhere" if e["tripped"] else "MISSED"
        print(f"{status:17s}{name}: tripped {[t['check'] for t in e['tripped']]} quiet {e['quiet']} errors {[(x['check'], x.get('rc')) for x in e['errors']]}", flush=True)
        json.dump(results, open(res_path, "w"), indent=1, sort_keys=True)
    table()


if __name__ == "__main__":
    main()
